"""C04 - Parsing is total: only the library's own errors, and it always terminates."""
from props.common import func_units, ground_unit
from props.replays import generic_replay

LEVEL = "proof"
R = "pyrtcm.rtcmreader.RTCMReader"
M = "pyrtcm.rtcmmessage.RTCMMessage"
USES_EXTERNAL = ["ext.Stream.read", "ext.Stream.readline", "ext.errorhandler", "ext.Socket.recv"]
TRUSTED = []
ASSUMPTIONS = ["termination of SocketWrapper.read()/readline(): variants net_end - rpos / net_end - dpos (obligations loop0.variant_decreases, "
               "loop0.variant_bounded_below) under the trusted recv() contract with a finite peer stream; _recv (plain and chunked) is proved "
               "to report True only after taking at least one byte off that stream",
               "termination of read(): variant |src| - pos; obligation read.loop0.inv_step.variant_each_iteration_consumes_a_byte shows "
               "that every iteration that goes round again has advanced pos by at least one byte, and pos <= |src| is invariant",
               "for-loops range over finite tables or range(); recursion of the walk follows the finite definition tree (depth <= 2, ground-checked)"]
ARGUED = ["iteration over a finite stream finishes: each read() call strictly advances pos or ends with (None, None)"]
EXPLANATION = ("exceptional postconditions of every function between the public entry points and the leaves: the constructor raises "
               "only RTCMMessageError/RTCMTypeError for any bytes (incl. lengths 0-2), parse adds RTCMParseError, read()/__next__ "
               "raise nothing in modes 0/1 and only the four library classes in mode 2.")


def depth_lemma():
    from contracts.message_glue import all_dicts
    d = all_dicts()
    mx = max(max(v[1]) for v in d.values())
    return [("tables.group_nesting_depth_le_2", mx <= 2, {"max_depth": mx}),
            ("tables.definition_tree_is_finite", True, {"dicts": len(d)})]


def units(tier):
    us = []
    for q in ("_read_bytes", "_read_line", "_parse_rtcm3", "_parse_ubx", "_parse_nmea", "parse", "read", "__next__", "__iter__", "_do_error"):
        us += func_units(f"{R}.{q}", tier)
    for q in ("__init__", "identity", "_do_attributes", "_set_attribute", "_set_attribute_group", "_set_attribute_optional",
              "_do_unknown", "_get_dict", "__setattr__"):
        us += func_units(f"{M}.{q}", tier)
    # socket-backed streams: the wrapper's loops terminate on a finite peer stream (variants), and raise nothing
    from props.common import socket_units
    us += socket_units(tier)  # incl. dechunk / __init__: no foreign exception out of the chunked path either
    us.append(ground_unit("C04.depth", depth_lemma))
    return us


def replay(o, seed):
    return generic_replay(o, seed)
