"""C09 - MSM masks map to the right satellites, signals and cells."""
from props.common import func_units, ground_unit, lemma_unit
from props.replays import generic_replay
from spec import tablecheck, msm

LEVEL = "proof"
M = "pyrtcm.rtcmmessage.RTCMMessage"
TRUSTED = []
ASSUMPTIONS = ["RINEX/PRN tables pinned in spec/pinned.py are the author's transcription of RTCM 10403.3 tables 3.5-91..108 (+BDS/QZSS amendments)",
               "cell-mask width = NSat*NSig reaches _getsatcellmaps through the attributes set by the DF394/DF395/DF396 leaves in that order "
               "(ground lemma masks_consecutive_in_order + leaf contracts); _getsatcellmaps itself is verified without that precondition"]
ARGUED = ["'the i-th satellite entry is labelled with the PRN of the i-th set bit': _getsatcellmaps.post.satmap_is_fold_of_satellite_mask + "
          "lemma fold1.kth_set_bit_value (+ PRN leaf: PRN_i = satmap[i]); likewise signals (fold0) and cells (fold1 with the "
          "satellite-major indexing lemma)"]
EXPLANATION = ("_getsatcellmaps verified for every constellation with symbolic 64-bit satellite mask, 32-bit signal mask, cell mask of "
               "symbolic width and both label options: the three maps equal prefix-indexed fold specifications (checkpointed unrolling of the "
               "mask loops, invariants with non-linear satellite-major indexing for the cell loops - no bound on NSat*NSig); the folds are "
               "proved (by induction, any width) to put the k-th set bit's label at key k; counts are popcounts (leaf contracts); tables "
               "match the pinned standard tables; reserved IDs are labelled with the marker itself.")


def units(tier):
    us = []
    us += func_units(M + "._getsatcellmaps", tier)
    us += func_units(M + "._set_attribute_single", tier, only=lambda i: i["field"] in ("DF394", "DF395", "DF396", "PRN", "CELLPRN", "CELLSIG"))
    us.append(lemma_unit("msm.fold_lemmas", msm.fold_lemmas))
    us.append(ground_unit("tables.msm", tablecheck.msm_table_lemmas))
    # the label option and the field types the maps depend on reach _getsatcellmaps unchanged: the static parser passes the option
    # on, and the mask fields are the pinned unsigned bit fields
    us += func_units("pyrtcm.rtcmreader.RTCMReader.parse", tier)
    us.append(ground_unit("tables.field_entries", tablecheck.field_entry_lemmas))
    return us


def replay(o, seed):
    if o["name"].startswith("tables."):
        from props import C10
        return C10.replay(o, seed)
    from props.common import try_candidates
    from props.replays import message_candidates
    if "rtcmreader" in (o.get("unit") or o["name"]):
        return generic_replay(o, seed)
    r = try_candidates("message_decode", message_candidates(o, seed, focus=lambda ident: "1070" <= ident <= "1229"), key=lambda i, r: "decode-msm")
    if r.get("reproduced"):
        return r
    from props import C13  # label/PRN maps that depend on what was parsed before (caches)
    return try_candidates("history_independence", C13.history_candidates(seed, 80), key=lambda i, r: "history")
