"""C02 - No valid frame is lost, duplicated or reordered on well-formed mixed input."""
from props.common import func_units
from props.replays import generic_replay

LEVEL = "proof"
R = "pyrtcm.rtcmreader.RTCMReader"
USES_EXTERNAL = ["ext.Stream.read", "ext.Stream.readline", "ext.errorhandler"]
TRUSTED = []
ASSUMPTIONS = ["fault-free stream contract (DESIGN 3.1): read(n) returns min(n, remaining) bytes, readline() through the first 0x0A",
               "the input is a concatenation of items as the property states (ghost partition isB/kind/iend; NMEA talker letters pinned "
               "in the contract, not read from the tree)",
               "ParsesOK(payload, labelmsm) - 'the constructor returns normally' - is an uninterpreted predicate of the payload bytes in "
               "read()'s own obligations; the decode-path obligations included here (as in C03) show that it is false only where the reference "
               "layout interpreter fails, i.e. the payload is too short for the fields it announces; unknown message numbers satisfy it by C15",
               "socket-backed streams: the SocketWrapper units and the refinement lemmas (incl. the fault-free-peer ones, lemma.refines_faultfree.*) are discharged in this check; that b'' instead of a partial tail at a truncated end makes no difference is argued (C02's input is a concatenation of complete items)"]
ARGUED = ["iteration returns every returnable frame exactly once, in order: each read() returns the FIRST returnable item at or after "
          "its start (NoRet chain) and leaves pos at that item's end, which is the next call's start; (None, None) only when every item "
          "has been consumed - induction over successive calls",
          "zero-length and maximum-length frames: the frame length is symbolic in 0..1023 in every obligation"]
EXPLANATION = ("read() verified under the fault-free stream contract with a ghost item partition: loop invariant 'pos is an item boundary, "
               "no returnable item skipped so far, handler calls = bad frames so far'; every item kind is shown to be consumed exactly "
               "(cover obligations show each kind is reachable).")


def units(tier):
    us = []
    for q in ("_read_bytes", "_read_line", "_parse_rtcm3", "_parse_ubx", "_parse_nmea", "parse", "_do_error", "__next__", "__iter__", "__init__"):
        us += func_units(f"{R}.{q}", tier)
    us += func_units(f"{R}.read", tier)
    # frames with unknown message numbers are returnable (stub), and frames with defined message numbers are returnable whenever
    # their payload is complete for the layout
    from props.common import decode_path_units
    us += decode_path_units(tier)
    # socket-backed streams: SocketWrapper refines the stream contract (C11), incl. chunked transfer encoding (C12)
    from props.common import socket_units, ground_unit
    us += socket_units(tier)
    # a 'valid frame' is one laid out as the standard says: a definition that needs more bits than the standard assigns over-reads
    # such a frame and the reader drops it
    from spec import tablecheck
    us.append(ground_unit("tables.WF", tablecheck.wf_lemmas))
    us.append(ground_unit("tables.no_longer_than_standard", tablecheck.no_longer_than_standard_lemmas))
    return us


def replay(o, seed):
    return generic_replay(o, seed)
