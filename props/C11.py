"""C11 - Socket reads are independent of how the network segments the data."""
import random

from props.common import func_units, try_candidates

LEVEL = "proof"
W = "pyrtcm.socketwrapper.SocketWrapper"
R = "pyrtcm.rtcmreader.RTCMReader"
USES_EXTERNAL = ["ext.Socket.recv"]
TRUSTED = []
ASSUMPTIONS = ["socket.recv contract (DESIGN C11): returns the next |d| <= bufsize bytes of the peer's stream, b'' only when the peer closed, "
               "or raises OSError/TimeoutError having consumed nothing; every segmentation and fault placement is one resolution of it",
               "termination of read() needs the peer to send, close or time out (liveness assumption, not proved)",
               "plain mode (chunked bit clear); chunked mode is C12; write()/in_waiting() not covered"]
ARGUED = ["'the reader over a socket returns the same messages as over a file': RTCMReader is verified against the stream contract of "
          "DESIGN 3.1 only (C01/C02); that SocketWrapper.read/readline REFINE that contract with src = the peer's stream, pos = bytes "
          "delivered, end = net_end is mechanised as lemmas over the contracts (lemma.refines.SocketWrapper.read/readline.*: every outcome "
          "the wrapper contracts allow is one the stream contract allows, and the class invariant holds again); what stays argued is the "
          "step from 'every behaviour over a socket is a behaviour over some stream obeying the contract' to equality with a fault-free "
          "file (a file returns the partial tail where the wrapper returns b'' - same messages, by C01's exact delimitation); "
          "RTCMReader.__init__ wraps sockets (obligation below)"]
EXPLANATION = ("class invariant _buffer == net[delivered : received] established by __init__, preserved by _recv (both outcomes - a failed "
               "receive changes nothing) and by read/readline; read returns exactly the next num bytes or b'' after a failed receive; "
               "readline the bytes through the first LF; loops cut at invariants: any number of receives of any sizes.")


def units(tier):
    us = []
    for q in ("_recv", "read", "readline", "__init__", "dechunk"):
        us += func_units(f"{W}.{q}", tier)
    us += func_units(R + ".__init__", tier)
    from spec import api
    from props.common import ground_unit as _gu
    from props.common import lemma_unit
    from contracts import socketw
    us.append(lemma_unit("socket.refines_stream_contract", socketw.refinement_lemmas))
    us.append(_gu("api.signatures", api.signature_lemmas(['pyrtcm.socketwrapper.SocketWrapper.__init__', 'pyrtcm.rtcmreader.RTCMReader.__init__'])))
    return us


def sock_candidates(seed):
    from spec import streams
    rnd = random.Random(seed)
    for i in range(400):
        items = streams.wellformed_stream(rnd)
        data = b"".join(x[1] for x in items)
        if i % 4 == 0:
            data = b"$GNabc\n" + data  # bare-LF line
        sched = []
        for _ in range(rnd.randrange(0, 40)):
            sched.append(rnd.choice([1, 1, 2, 3, 7, 100, 536, "timeout", "oserror"]) if rnd.random() < 0.9 else rnd.randrange(1, 2000))
        yield data, sched, rnd.choice([1, 2, 16, 100, 4096])


def replay(o, seed):
    def plain():
        rnd = random.Random(seed)
        for data, sched, bs in sock_candidates(seed):
            reads = [rnd.choice([0, 1, 1, 2, 3, 6, 19, "line", len(data) // 2 + 1]) for _ in range(rnd.randrange(1, 12))]
            yield {"data": data.hex(), "schedule": sched, "bufsize": bs, "reads": reads}
    r = try_candidates("socket_plain", plain(), key=lambda i, r: "socket")
    if r.get("reproduced"):
        return r
    rd = ({"data": d.hex(), "schedule": [x for x in s if isinstance(x, int)], "bufsize": bs} for d, s, bs in sock_candidates(seed + 1))
    r = try_candidates("socket_reader", rd, key=lambda i, r: "socket-reader")
    if r.get("reproduced") or not ("dechunk" in (o.get("unit") or o["name"]) or "chunked" in o["name"] or "_recv" in (o.get("unit") or o["name"])):
        return r
    from props import C12  # chunked transfer decoding: its own segmentation sweep
    return C12.replay(o, seed)
