"""Helpers shared by the per-property modules."""
import random

from pyvc import check as chk
from pyvc.contract import Unit, func_units


def lemma_unit(name, fn):
    return Unit("lemma", name, fn=fn)


def ground_unit(name, fn):
    return Unit("ground", name, fn=fn)


def try_candidates(spec_name, candidates, key=None, limit=2000):
    """Run concrete candidates through the real code until one fails the contract."""
    import itertools
    inputs = []
    try:
        for x in itertools.islice(candidates, limit):
            inputs.append(x)
    except Exception:  # noqa  a generator that trips over a malformed tree: use what we have
        pass
    res = chk.run_replay_batch(spec_name, inputs)
    if res.get("fails"):
        inp = res.get("input")
        return {"reproduced": True, "spec": spec_name, "input": inp, "expected": res.get("expected"),
                "observed": res.get("observed"), "key": key(inp, res) if key else None}
    return {"reproduced": False, "spec": None, "error": res.get("error") or res.get("last_error")}


def byte_strings(seed, n=60, maxlen=24):
    rnd = random.Random(seed)
    yield b""
    yield b"\x00"
    yield b"\x01"
    yield b"\x80"
    yield b"\xff"
    yield b"123456789"
    yield b"\xd3\x00\x00"
    for _ in range(n):
        yield bytes(rnd.randrange(256) for _ in range(rnd.randrange(1, maxlen)))
    # remainders with special shapes: leading zero byte(s), all ones, zero (found by search over random strings; spec CRC)
    from spec.crc import crc_bytes
    want = {"top_zero": lambda c: c >> 16 == 0 and c != 0, "top_two_zero": lambda c: c >> 8 == 0 and c != 0, "ones": lambda c: c == 0xFFFFFF,
            "low_zero": lambda c: c & 0xFF == 0 and c != 0}
    found = {}
    tries = 0
    while len(found) < 3 and tries < 40000:
        tries += 1
        m = bytes(rnd.randrange(256) for _ in range(rnd.randrange(4, 12)))
        c = crc_bytes(m)
        for k, f in want.items():
            if k not in found and f(c):
                found[k] = m
                yield m
    base = bytes(rnd.randrange(256) for _ in range(9))
    yield base + crc_bytes(base).to_bytes(3, "big")  # a message with its own checksum appended: remainder 0
