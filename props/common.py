"""Helpers shared by the per-property modules."""
import random

from pyvc import check as chk
from pyvc.contract import Unit, func_units


def lemma_unit(name, fn):
    return Unit("lemma", name, fn=fn)


def ground_unit(name, fn):
    return Unit("ground", name, fn=fn)


def decode_path_units(tier):
    """'Every valid frame is returned / parses': a frame whose payload is complete for its type's layout constructs - the decode walk
    raises only where the reference interpreter R fails (payload too short), the MSM maps raise nothing, unknown types give a stub."""
    from spec import msm
    Mq = "pyrtcm.rtcmmessage.RTCMMessage"
    us = []
    us += func_units(Mq + "._get_dict", tier)
    us += func_units(Mq + ".identity", tier)
    us += func_units(Mq + "._do_attributes", tier, only=lambda inst: inst["identity"].startswith("unknown"))
    us += func_units(Mq + ".__init__", tier)
    us += func_units(Mq + "._set_attribute_single", tier)
    us += func_units(Mq + "._getsatcellmaps", tier)
    for q in ("_set_attribute", "_set_attribute_group", "_set_attribute_optional"):
        us += func_units(f"{Mq}.{q}", tier)
    us += func_units(Mq + "._do_attributes", tier, only=lambda inst: not inst["identity"].startswith("unknown"))
    us.append(lemma_unit("msm.fold_lemmas", msm.fold_lemmas))
    return us


# obligations of the SocketWrapper contracts that speak about progress / completeness, not about WHICH bytes are handed out
SOCKET_LIVENESS = ("variant_", "faultfree_", "short_only_after_failed_receive", "true_means_segment_appended", "no_complete_chunk_left_in_partial",
                   "ends_at_first_LF_or_stopped_on_empty_read", "recv.pre.bufsize_positive")


def socket_units(tier, safety_only=False):
    """The stream a reader is given may be the library's own SocketWrapper (RTCMReader.__init__ wraps sockets itself): every property
    stated over 'the underlying stream' therefore also rests on SocketWrapper (plain and chunked) honouring the stream contract the
    reader is verified against.  These are the C11/C12 function units plus the refinement lemmas over their contracts.
    safety_only: for properties that only need 'the bytes handed out are the peer's bytes, in order, nothing invented, lost in the
    middle or repeated' (C01, C13) the progress obligations of those contracts are left to C02/C04/C11/C12."""
    us = []
    for q in ("_recv", "read", "readline", "__init__", "dechunk"):  # incl. chunked transfer encoding (C12): same stream contract
        us += func_units(f"pyrtcm.socketwrapper.SocketWrapper.{q}", tier)
    if safety_only:
        for u in us:
            u.skip_obligations = SOCKET_LIVENESS
    from contracts import socketw
    us.append(lemma_unit("socket.refines_stream_contract", socketw.refinement_lemmas))
    return us


def try_candidates(spec_name, candidates, key=None, limit=2000):
    """Run concrete candidates through the real code until one fails the contract."""
    import itertools
    inputs = []
    try:
        for x in itertools.islice(candidates, limit):
            inputs.append(x)
    except Exception:  # noqa  a generator that trips over a malformed tree: use what we have
        pass
    res = chk.run_replay_batch(spec_name, inputs)
    if res.get("fails"):
        inp = res.get("input")
        return {"reproduced": True, "spec": spec_name, "input": inp, "expected": res.get("expected"),
                "observed": res.get("observed"), "key": key(inp, res) if key else None}
    return {"reproduced": False, "spec": None, "error": res.get("error") or res.get("last_error")}


def byte_strings(seed, n=60, maxlen=24):
    rnd = random.Random(seed)
    yield b""
    yield b"\x00"
    yield b"\x01"
    yield b"\x80"
    yield b"\xff"
    yield b"123456789"
    yield b"\xd3\x00\x00"
    for _ in range(n):
        yield bytes(rnd.randrange(256) for _ in range(rnd.randrange(1, maxlen)))
    # remainders with special shapes: leading zero byte(s), all ones, zero (found by search over random strings; spec CRC)
    from spec.crc import crc_bytes
    want = {"top_zero": lambda c: c >> 16 == 0 and c != 0, "top_two_zero": lambda c: c >> 8 == 0 and c != 0, "ones": lambda c: c == 0xFFFFFF,
            "low_zero": lambda c: c & 0xFF == 0 and c != 0}
    found = {}
    tries = 0
    while len(found) < 3 and tries < 40000:
        tries += 1
        m = bytes(rnd.randrange(256) for _ in range(rnd.randrange(4, 12)))
        c = crc_bytes(m)
        for k, f in want.items():
            if k not in found and f(c):
                found[k] = m
                yield m
    base = bytes(rnd.randrange(256) for _ in range(9))
    yield base + crc_bytes(base).to_bytes(3, "big")  # a message with its own checksum appended: remainder 0
