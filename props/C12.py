"""C12 - Chunked transfer decoding is independent of segmentation."""
import itertools
import os
import random

from props.common import func_units, try_candidates

LEVEL = "proof"
W = "pyrtcm.socketwrapper.SocketWrapper"
USES_EXTERNAL = ["ext.Socket.recv", "ext.BytesIO", "ext.zlib.decompress", "ext.Stream.read", "ext.Stream.readline"]
TRUSTED = []
ASSUMPTIONS = ["well-formed chunked body (ghost partition into  hex-size CRLF data CRLF ... 0 CRLF CRLF ): int(line.strip(), 16) is an "
               "uninterpreted function of the size line that succeeds on size lines and equals the data length (so upper/lower-case digits "
               "and surrounding blanks are whatever int() accepts - the hex parsing itself is NOT verified, only covered by the bounded sweep)",
               "zlib.decompress is an uninterpreted function of (bytes, wbits) assumed to succeed on the chunk bodies; the decoded body is "
               "defined with the same symbols",
               "receives after the zero chunk are not modelled"]
ARGUED = ["bytes delivered = concatenation of decoded chunk bodies: the chunked-mode class invariant (_buffer = dec[delivered : doff(cs)], "
          "_partial = enc[cs : received], cs a chunk boundary, no complete chunk held back) + read() of C11, for every segmentation since "
          "each receive is one resolution of the recv contract"]
EXPLANATION = ("dechunk verified over a ghost chunk partition of the encoded stream (loop invariant: BytesIO cursor at a chunk boundary, "
               "chunks = decoded bodies so far); postconditions: partial is the undecoded tail from a chunk boundary, no complete chunk is "
               "left in it, chunks are exactly the decoded bodies before it - for all 8 compression-bit combinations; _recv (chunked) "
               "preserves the class invariant. A labelled bounded sweep (all 1- and 2-cut segmentations of small bodies, upper/lower-case "
               "sizes, with/without zero chunk, each compression) covers what the uninterpreted functions abstract.")


def units(tier):
    us = []
    us += func_units(W + ".dechunk", tier)
    us += func_units(W + "._recv", tier)
    us += func_units(W + ".read", tier)
    us += func_units(W + ".__init__", tier)
    return us


def sweep(seed, tier):
    rnd = random.Random(seed)
    shapes = [["68656c6c6f", "616263"], ["41"], ["00" * 10, "0d0a", "3132"], ["61" * 17], [], ["0a0d0a", "30"],
              ["78350d0a79"], ["350d0a350d0a"]]  # chunk data that contains its own size line ("x5\r\ny", "5\r\n5\r\n")
    if tier != "quick":
        shapes += [[("%02x" % rnd.randrange(256)) * rnd.randrange(1, 30) for _ in range(rnd.randrange(1, 4))] for _ in range(10)]
    for bodies in shapes:
        for comp in (0, 2, 4, 8):
            for upper in (False, True):
                for zero in (True, False):
                    from spec.concrete import chunked_encode
                    n = len(chunked_encode([bytes.fromhex(h) for h in bodies], comp, upper, zero))
                    cutsets = [[]] + [[c] for c in range(1, n)]
                    if n <= 40 or tier != "quick":
                        cutsets += [list(c) for c in itertools.combinations(range(1, n), 2)] if n <= 40 else [sorted(rnd.sample(range(1, n), 2)) for _ in range(200)]
                    else:
                        cutsets += [sorted(rnd.sample(range(1, n), 2)) for _ in range(60)]
                    for cuts in cutsets:
                        yield {"bodies": bodies, "comp": comp, "upper": upper, "zero": zero, "cuts": cuts}
                    for bs in (1, 2, 5, 8, 16):  # receive buffer smaller than a chunk
                        yield {"bodies": bodies, "comp": comp, "upper": upper, "zero": zero, "cuts": [], "bufsize": bs}


def truncated(seed):
    """Peer closes inside the body (mid size line, mid chunk data, before the zero chunk), uncompressed."""
    from spec.concrete import chunked_encode
    for bodies in (["68656c6c6f", "616263"], ["41"], ["61" * 17]):
        n = len(chunked_encode([bytes.fromhex(h) for h in bodies], 0, False, True))
        for t in range(1, n):
            yield {"bodies": bodies, "comp": 0, "upper": False, "zero": True, "cuts": [], "truncate": t}
            yield {"bodies": bodies, "comp": 0, "upper": False, "zero": True, "cuts": [max(1, t // 2)], "truncate": t}


def replay(o, seed):
    r = try_candidates("chunked", sweep(seed, "quick"), key=lambda i, r: "chunked", limit=200000)
    if r.get("reproduced"):
        return r
    return try_candidates("chunked", truncated(seed), key=lambda i, r: "chunked-closed-early")


def bounded(tier, seed, results):
    from pyvc import check as chk
    inputs = list(sweep(seed, tier))
    res = chk.run_replay_batch("chunked", inputs)
    out = {"name": "C12.segmentation_sweep", "kind": "bounded", "bound": f"{len(inputs)} cases: small chunked bodies x {{none,gzip,zlib,deflate}} x "
           "upper/lower-case sizes x with/without zero chunk x every 1-cut and (for encodings <= 40 bytes every, else sampled) 2-cut segmentation",
           "evaluations": len(inputs), "violation": False}
    if res.get("fails"):
        import json
        os.makedirs(os.path.join(chk.OUT, "replays", "C12"), exist_ok=True)
        path = os.path.join(chk.OUT, "replays", "C12", "segmentation-bounded.json")
        json.dump({"property": "C12", "obligation": "C12.segmentation_sweep (bounded stand-in)", "reproduced_on_real_code": True,
                   "replay_spec": "chunked", "input": res.get("input"), "expected": res.get("expected"), "observed": res.get("observed")},
                  open(path, "w"), indent=1, default=str)
        out.update({"violation": True, "replay": os.path.relpath(path, chk.OUT), "key": "chunked"})
    return [out]
