"""C06 - Fields are never read past the end of the payload."""
import os
import random

from props.common import func_units, ground_unit
from props.replays import generic_replay

LEVEL = "proof"
M = "pyrtcm.rtcmmessage.RTCMMessage"
TRUSTED = []
ASSUMPTIONS = ["truncation corollary: prefix determinism of the reference interpreter R is proved per concrete table node (T1/T2 in "
               "spec/prefix.py: structural + Iter induction over the abstract message state, ~3 800 obligations) from three leaf axioms "
               "(LA, GA, BA); LA/BA are discharged on the leaf SPECIFICATION for every plain field signature (value is a function of its "
               "own bits, failure iff offset+width > L); for the derived fields and DF396/IDF038, which additionally read attributes or "
               "maps, they hold because Pre equates those - argued, not discharged; the relation Pre itself is uninterpreted",
               "the bounded truncation sweep is kept as an independent cross-check (labelled bounded)"]
ARGUED = ["linking R to the code: the walk contracts (L2/L3) state code = R; the leaf contract (L1) states code = leaf spec",
          "leaf axioms for PRN/CELLPRN/CELLSIG/DF396/IDF038 (see assumptions)"]
EXPLANATION = ("L1: for every data field, a normal return implies offset + width <= 8*len(payload) and the value is built from payload "
               "bits below that bound; a field that does not fit raises; L2/L3: the walk and the constructor propagate the failure as the "
               "library's RTCMTypeError; __init__ fixes _payblen = 8*len and _payloadi = int of exactly the payload.")


def units(tier):
    us = []
    us += func_units(M + "._set_attribute_single", tier)
    for q in ("_set_attribute", "_set_attribute_group", "_set_attribute_optional", "_do_attributes", "__init__"):
        us += func_units(f"{M}.{q}", tier)
    # truncation corollary: prefix determinism of the layout interpreter, per concrete table node (spec/prefix.py)
    from props.common import lemma_unit
    from spec import prefix
    for c in range(16):
        us.append(lemma_unit(f"prefix.determinism.chunk{c}", (lambda c=c: prefix.all_obligations(c, 16))))
    us.append(lemma_unit("prefix.leaf_axioms_on_leaf_spec", prefix.leaf_axiom_checks))
    us.append(lemma_unit("prefix.truncation_corollary", prefix.corollary))
    # "the fields, repeat counts and masks it announces" are those of the standard's layout: the definition tables are compared with
    # the pinned length formulas (fixed part + per-counter terms), so a table that requires fewer bits than the message announces
    # (a group repeated on the wrong counter, a dropped field) fails here
    from spec import tablecheck
    us.append(ground_unit("tables.WF", tablecheck.wf_lemmas))
    us.append(ground_unit("tables.lengths", tablecheck.length_lemmas))
    us.append(ground_unit("tables.siblings", tablecheck.sibling_lemmas))
    return us


def replay(o, seed):
    if o["name"].startswith("tables."):
        # a table that disagrees with the pinned layout: look for a payload the real decoder accepts although it is shorter than
        # the standard's length formula requires for the counters it carries
        from props.common import try_candidates
        from props.replays import message_candidates
        import re
        m = re.search(r"\[([0-9_]+)\]", o["name"])
        focus = (lambda ident: ident == m.group(1)) if m else None
        cands = [c for c in message_candidates(o, seed, focus=focus) if "labelmsm" in c]
        for k in range(1, 6):
            cands += [c for c in message_candidates(o, seed + 100 * k, focus=focus) if "labelmsm" in c]
        r = try_candidates("announced_length", iter(cands), key=lambda i, r: "announced-length")
        if r.get("reproduced"):
            r["key"] = o["name"]
            return r
        from props import C10
        return C10.replay(o, seed)
    return generic_replay(o, seed)


def bounded(tier, seed, results):
    """Stand-in for the truncation corollary: all whole-byte truncations (down to the identity header) of complete messages
    of every defined type must be rejected.  Labelled bounded; never counted as proved."""
    from pyvc import check as chk
    from spec import encoder
    rnd = random.Random(seed)
    per = 1 if tier == "quick" else 4
    inputs = []
    ntypes = 0
    for ident in encoder.all_identities():
        got = False
        for pat in (("random",) * per + (("ones", "zeros") if tier != "quick" else ())):
            p = encoder.complete_message(ident, rnd, pat)
            if p is None:
                continue
            got = True
            hdr = 3 if ident.startswith("4076") else 2
            cuts = range(hdr, len(p)) if (len(p) <= 80 or tier != "quick") else sorted(set(list(range(hdr, 40)) + list(range(len(p) - 30, len(p))) + rnd.sample(range(hdr, len(p)), 20)))
            for n in cuts:
                inputs.append({"payload": p[:n].hex(), "full": len(p)})
        ntypes += got
    res = chk.run_replay_batch("truncation_rejected", inputs)
    out = {"name": "C06.truncation_corollary", "kind": "bounded", "bound": f"{ntypes} message types, {per} generated complete message(s) each"
           + (" + all-ones/all-zeros patterns" if tier != "quick" else "") + ", every whole-byte truncation (sampled for messages > 80 bytes in quick tier)",
           "evaluations": len(inputs), "violation": False}
    if res.get("fails"):
        os.makedirs(os.path.join(chk.OUT, "replays", "C06"), exist_ok=True)
        path = os.path.join(chk.OUT, "replays", "C06", "truncation-bounded.json")
        import json
        json.dump({"property": "C06", "obligation": "C06.truncation_corollary (bounded stand-in)", "reproduced_on_real_code": True,
                   "replay_spec": "truncation_rejected", "input": res.get("input"), "expected": res.get("expected"), "observed": res.get("observed")},
                  open(path, "w"), indent=1, default=str)
        out.update({"violation": True, "replay": os.path.relpath(path, chk.OUT), "key": "truncation"})
    # the same inputs against the pinned length formulas: nothing accepted may be shorter than its own counters announce
    res2 = chk.run_replay_batch("announced_length", inputs)
    out2 = {"name": "C06.accepted_payloads_cover_announced_length", "kind": "bounded", "bound": out["bound"] + "; requirement from spec/pinned.py",
            "evaluations": len(inputs), "violation": False}
    if res2.get("fails"):
        import json
        os.makedirs(os.path.join(chk.OUT, "replays", "C06"), exist_ok=True)
        path = os.path.join(chk.OUT, "replays", "C06", "announced-length-bounded.json")
        json.dump({"property": "C06", "obligation": "C06.accepted_payloads_cover_announced_length (bounded stand-in)", "reproduced_on_real_code": True,
                   "replay_spec": "announced_length", "input": res2.get("input"), "expected": res2.get("expected"), "observed": res2.get("observed")},
                  open(path, "w"), indent=1, default=str)
        out2.update({"violation": True, "replay": os.path.relpath(path, chk.OUT), "key": "announced-length"})
    return [out, out2]
