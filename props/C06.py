"""C06 - Fields are never read past the end of the payload."""
import os
import random

from props.common import func_units, ground_unit
from props.replays import generic_replay

LEVEL = "proof"
M = "pyrtcm.rtcmmessage.RTCMMessage"
TRUSTED = []
ASSUMPTIONS = ["main clause (no attribute from bits outside the payload) is proved; the 'in particular' clause (a complete message cut "
               "by whole bytes is rejected) additionally needs prefix determinism of the walk, which is ARGUED from the proved leaf "
               "contracts (value and failure depend on the payload only through the field's own bits and through offset+width <= L) and "
               "backed by a BOUNDED stand-in: every truncation length of generated complete messages of every defined type"]
ARGUED = ["prefix determinism: if two payloads agree on the first L' bits and the walk succeeds on the shorter one, it succeeds on the "
          "longer one with the same attributes and the same final offset <= L'; hence a payload whose layout ends at bit E > L' cannot "
          "parse when cut to L' bits"]
EXPLANATION = ("L1: for every data field, a normal return implies offset + width <= 8*len(payload) and the value is built from payload "
               "bits below that bound; a field that does not fit raises; L2/L3: the walk and the constructor propagate the failure as the "
               "library's RTCMTypeError; __init__ fixes _payblen = 8*len and _payloadi = int of exactly the payload.")


def units(tier):
    us = []
    us += func_units(M + "._set_attribute_single", tier)
    for q in ("_set_attribute", "_set_attribute_group", "_set_attribute_optional", "_do_attributes", "__init__"):
        us += func_units(f"{M}.{q}", tier)
    return us


def replay(o, seed):
    return generic_replay(o, seed)


def bounded(tier, seed, results):
    """Stand-in for the truncation corollary: all whole-byte truncations (down to the identity header) of complete messages
    of every defined type must be rejected.  Labelled bounded; never counted as proved."""
    from pyvc import check as chk
    from spec import encoder
    rnd = random.Random(seed)
    per = 1 if tier == "quick" else 4
    inputs = []
    ntypes = 0
    for ident in encoder.all_identities():
        got = False
        for pat in (("random",) * per + (("ones", "zeros") if tier != "quick" else ())):
            p = encoder.complete_message(ident, rnd, pat)
            if p is None:
                continue
            got = True
            hdr = 3 if ident.startswith("4076") else 2
            cuts = range(hdr, len(p)) if (len(p) <= 80 or tier != "quick") else sorted(set(list(range(hdr, 40)) + list(range(len(p) - 30, len(p))) + rnd.sample(range(hdr, len(p)), 20)))
            for n in cuts:
                inputs.append({"payload": p[:n].hex(), "full": len(p)})
        ntypes += got
    res = chk.run_replay_batch("truncation_rejected", inputs)
    out = {"name": "C06.truncation_corollary", "kind": "bounded", "bound": f"{ntypes} message types, {per} generated complete message(s) each"
           + (" + all-ones/all-zeros patterns" if tier != "quick" else "") + ", every whole-byte truncation (sampled for messages > 80 bytes in quick tier)",
           "evaluations": len(inputs), "violation": False}
    if res.get("fails"):
        os.makedirs(os.path.join(chk.OUT, "replays", "C06"), exist_ok=True)
        path = os.path.join(chk.OUT, "replays", "C06", "truncation-bounded.json")
        import json
        json.dump({"property": "C06", "obligation": "C06.truncation_corollary (bounded stand-in)", "reproduced_on_real_code": True,
                   "replay_spec": "truncation_rejected", "input": res.get("input"), "expected": res.get("expected"), "observed": res.get("observed")},
                  open(path, "w"), indent=1, default=str)
        out.update({"violation": True, "replay": os.path.relpath(path, chk.OUT), "key": "truncation"})
    return [out]
