"""Maps a refuted obligation to concrete candidates run against the real code (DESIGN 2.2):
first inputs suggested by the counter-model, then a seeded search over the input family the
obligation's contract quantifies over.  Whatever fails is replayed from the replay file."""
import itertools
import os
import random

from props.common import try_candidates


def model_get(o, key, default=None):
    m = o.get("model") or {}
    v = m.get(key, default)
    return v if isinstance(v, int) else default


def reader_candidates(o, seed):
    from spec import streams
    rnd = random.Random(seed)
    sizes = [model_get(o, "size"), model_get(o, "L")]
    # model-guided: frames with the payload size of the counter-model (0 => filler)
    for sz in sizes:
        if sz is not None and 0 <= sz <= 1023:
            p = bytes(rnd.randrange(256) for _ in range(sz)) if sz < 2 else streams.payload_for(4095, sz, rnd)
            data = streams.frame(p) + streams.frame(streams.P1005)
            for q in (1, 0, 2):
                for parsed in (True, False):
                    yield {"data": data.hex(), "cuts": [], "quitonerror": q, "validate": 1, "parsed": parsed, "handler": True}
    from spec import encoder, refdecode
    msm = list(refdecode.tables()[2])
    for i in range(12):
        ident = rnd.choice(msm)
        p = encoder.complete_message(ident, rnd, "random")
        if p is None:
            continue
        f = streams.frame(p)
        for v in (0, 1):
            for lm in (2, 1):
                yield {"data": (f + streams.frame(streams.P1005)).hex(), "cuts": [], "quitonerror": 1, "validate": v, "parsed": True,
                       "handler": True, "labelmsm": lm}
    for i in range(700):
        data = streams.adversarial_stream(rnd) if i % 3 else b"".join(x[1] for x in streams.wellformed_stream(rnd))
        cuts = [rnd.choice([None, None, None, 0, 1, 2, 3, 5]) for _ in range(rnd.randrange(0, 25))] if i % 2 else []
        yield {"data": data.hex(), "cuts": cuts, "quitonerror": rnd.choice([0, 1, 2]), "validate": rnd.choice([1, 1, 0]),
               "parsed": rnd.choice([True, True, False, 0, 1]), "handler": rnd.choice([True, False, "returns_true"]),
               "stream_kind": rnd.choice(["plain", "plain", "seekable", "bad_tell"])}


def damaged_stream_candidates(seed):
    """Valid frames with damaged ones in between, on a seekable stream, every option combination."""
    from spec import streams
    rnd = random.Random(seed)
    for k in range(60):
        parts = []
        for _ in range(rnd.randrange(2, 6)):
            f = streams.frame(streams.good_payloads(rnd))
            parts.append(streams.damage(f, rnd) if rnd.random() < 0.5 else f)
        yield {"data": b"".join(parts).hex(), "cuts": [], "quitonerror": rnd.choice([0, 1, 2]), "validate": rnd.choice([1, 1, 0]),
               "parsed": rnd.choice([True, True, False]), "handler": rnd.choice([True, False]), "stream_kind": "seekable", "no_rewind": True}


def complete_candidates(o, seed):
    from spec import streams
    rnd = random.Random(seed)
    # a UBX frame whose 16-bit length has its top bit set, followed by a frame that must still be returned
    big = streams.ubx(1, 2, bytes(rnd.randrange(1, 255) for _ in range(40000)).replace(b"\xd3", b"\x01").replace(b"\xb5", b"\x01").replace(b"$", b"\x01"))
    f = streams.frame(streams.P1005)
    for q in (0, 1):
        yield {"items": [["ubx", big.hex()], ["rtcm", f.hex()]], "quitonerror": q, "validate": 1, "parsed": True, "handler": True}
    # many damaged frames in a row, then good ones: nothing may make a reader give up or change its mind after N errors
    for n in (60, 300):
        items = []
        for _ in range(n):
            items.append(["damaged", streams.damage(streams.frame(streams.good_payloads(rnd)), rnd).hex()])
        items += [["rtcm", f.hex()], ["damaged", streams.damage(f, rnd).hex()], ["rtcm", f.hex()]]
        for q in (0, 1):
            yield {"items": items, "quitonerror": q, "validate": 1, "parsed": True, "handler": True}
    for i in range(500):
        items = streams.wellformed_stream(rnd, kinds=("rtcm", "rtcm", "filler", "ubx", "nmea", "noise", "rtcm1"))
        out = []
        for k, b, p in items:
            if k == "rtcm" and rnd.random() < 0.3:
                out.append(["damaged", streams.damage(b, rnd).hex()])
            else:
                out.append([k, b.hex()])
        yield {"items": out, "quitonerror": rnd.choice([0, 1, 2]), "validate": rnd.choice([1, 1, 0]),
               "parsed": rnd.choice([True, True, False, 0, 1]), "handler": rnd.choice([True, True, False, "falsy", "returns_true"]),
               "stream_kind": rnd.choice(["plain", "plain", "seekable", "bad_tell"])}


def parse_candidates(o, seed):
    from spec import streams, encoder
    rnd = random.Random(seed)
    for n in range(0, 9):
        yield {"message": bytes(rnd.randrange(256) for _ in range(n)).hex(), "validate": 0}
        yield {"message": (b"\xd3\x00" + bytes(n))[:n].hex(), "validate": 1}
    for suffix in (b"\r\n", b"\n", b"\r", b"\x00", b"\xd3", b" "):
        f = streams.frame_with_trailer_suffix(rnd, suffix)
        if f:
            yield {"message": f.hex(), "validate": 1}
            yield {"message": f.hex(), "validate": 0}
    from spec import encoder as _enc, refdecode as _rd
    for ident in list(_rd.tables()[2])[::4]:  # MSM frames under every validate / label option combination
        p = _enc.complete_message(ident, rnd, "random")
        if p is not None:
            f = streams.frame(p)
            for v in (0, 1):
                for lm in (2, 1, 0):
                    yield {"message": f.hex(), "validate": v, "labelmsm": lm}
    for i in range(6):  # the frame's own checksum bytes also occur inside its payload
        f = streams.frame_with_crc_inside(rnd, rnd.choice([8, 19, 40, 200]))
        if f:
            yield {"message": f.hex(), "validate": 1}
            yield {"message": f.hex(), "validate": 0}
    for i in range(30):
        f = streams.frame(streams.good_payloads(rnd))
        yield {"message": (f[:-3] + b"\x00\x00\x00").hex(), "validate": 1}  # checksum field blanked
        for suffix in (b"\r\n", b"\n", b"\x00"):
            yield {"message": (f + suffix).hex(), "validate": 1}  # a valid frame with something appended: CRC over the whole buffer fails
        g = bytearray(f)
        g[3] ^= rnd.choice([0x80, 0x40, 0x20, 0x10, 0x01])  # message-number bits: the damaged number is usually not a listed one
        yield {"message": bytes(g).hex(), "validate": 1}
    for i in range(300):
        p = streams.good_payloads(rnd)
        f = streams.frame(p)
        yield {"message": f.hex(), "validate": rnd.choice([0, 1, 3, 2]), "labelmsm": rnd.choice([1, 2])}
        yield {"message": streams.damage(f, rnd).hex(), "validate": rnd.choice([0, 1, 1, 3]), "labelmsm": 1}
    for i in range(40):
        p = streams.good_payloads(rnd)
        f = bytearray(streams.frame(p))
        f[2] = (f[2] + rnd.choice([1, 2, 3, 255, 254])) & 255  # declared length differs from the enclosed payload
        if rnd.random() < 0.5:
            f[1] ^= rnd.choice([1, 2, 4, 0x80])
        yield {"message": bytes(f).hex(), "validate": 0}
    for ident, p in encoder.corpus(seed, per_type=1, patterns=("random",)):
        f = streams.frame(p)
        yield {"message": f.hex(), "validate": 1}
        yield {"message": (f[:-3] + bytes([f[-3] ^ 1]) + f[-2:]).hex(), "validate": 0}


def short_payloads():
    yield b""
    for a in (0x00, 0x3E, 0xFE, 0xFF):
        yield bytes([a])
    for b in range(0xC0, 0xD0):
        yield bytes([0xFE, b])
    yield bytes([0x3E, 0xD0])
    yield bytes([0xFE, 0xC0, 0x2A])
    for b in (0xC1, 0xCF, 0xD0, 0xDF, 0xE0, 0xFF):  # 4076 / 4077-4095 with and without a third byte
        yield bytes([0xFE, b])
        yield bytes([0xFF, b])
    for body in (b"\x01\x23", b"\x01\x23\x45", b"\x00" * 6):  # payloads of type 3376 that look like a whole frame
        f = b"\xd3" + len(body).to_bytes(2, "big") + body + b"\xaa\xbb\xcc"
        yield f


def message_candidates(o, seed, focus=None):
    from contracts.message import all_headers
    from spec import encoder
    rnd = random.Random(seed)
    for p in short_payloads():
        yield {"payload": p.hex()}
    # other legal values of the label option (anything but 2 selects the RINEX code), MSM messages only
    from spec import refdecode
    for ident in list(refdecode.tables()[2])[::3]:
        if focus and not focus(ident):
            continue
        p = encoder.complete_message(ident, rnd, "random")
        if p is not None:
            for lm in (0, True, 3):
                yield {"payload": p.hex(), "labelmsm": lm}
    # text fields carrying non-ASCII UTF-8 code units (1029: 72 header bits = 9 bytes, DF139 = number of code units, then the text)
    if not focus or focus("1029"):
        base = encoder.complete_message("1029", rnd, "random")
        if base is not None and len(base) >= 9:
            for text in ("\u00e9", "caf\u00e9", "\u0410\u03b8\u03ae\u03bd\u03b1", "\u00c3\u00a9", "\u20ac5", "a\u00e9b\u00fc", "\U0001F6F0"):
                t = text.encode("utf-8")
                yield {"payload": (base[:7] + bytes([len(text) & 0x7F]) + bytes([len(t)]) + t).hex()[:2 * 9 + 2 * len(t)] if False else
                       (base[:8] + bytes([len(t)]) + t).hex()}
    p0, p1, ln = model_get(o, "p0"), model_get(o, "p1"), model_get(o, "len")
    if p0 is not None and p1 is not None and ln is not None and 0 <= ln <= 1023:
        yield {"payload": (bytes([p0 & 255, p1 & 255]) + bytes(max(ln - 2, 0)))[:ln].hex()}
    for lm in (1, 2):
        for ident, p in encoder.corpus(seed + lm, per_type=2):
            if focus and not focus(ident):
                continue
            yield {"payload": p.hex(), "labelmsm": lm}
            if lm == 1:  # every signed field at 'sign bit only' (most negative two's complement value / sign-magnitude minus zero)
                q = encoder.sign_only_variant(p)
                if q is not None:
                    yield {"payload": q.hex(), "labelmsm": lm}
            if rnd.random() < 0.5 and len(p) > 3:  # truncations (C06)
                yield {"payload": p[:rnd.randrange(3, len(p))].hex(), "labelmsm": lm}
                yield {"payload": p[:-1].hex(), "labelmsm": lm}
    for hdr in all_headers():
        yield {"payload": (hdr + bytes(rnd.randrange(256) for _ in range(rnd.choice([0, 1, 9])))).hex()}


def header_candidates(o, seed):
    from contracts.message import all_headers
    from spec import encoder, refdecode
    rnd = random.Random(seed)
    for ident in refdecode.tables()[2]:  # complete MSM messages, incl. empty masks
        for pat in ("zeros", "random"):
            p = encoder.complete_message(ident, rnd, pat)
            if p is not None:
                yield {"payload": p.hex()}
    h = (o.get("model") or {}).get("header")
    if isinstance(h, str):
        yield {"payload": h + "00" * 8}
    for hdr in all_headers():
        yield {"payload": (hdr + bytes(10)).hex()}
        yield {"payload": hdr.hex()}


M_ = "pyrtcm.rtcmmessage.RTCMMessage"


def frame_replay(o, seed):
    """A violation of the shared-state scan: look for a history that shows it on the real code (two objects / two calls);
    the scan itself is a concrete evaluation on the real source, so it stands as the witness when no history is found."""
    from props import C13
    rnd = random.Random(seed)
    tries = []
    if "socketwrapper" in o["name"]:
        from props.C11 import sock_candidates
        tries.append(("socket_history", ({"streams": [[d.hex(), [x for x in sc if isinstance(x, int)], bs] for d, sc, bs in list(sock_candidates(seed + j))[:3]]}
                                         for j in range(40)), "socket-history"))
    if "rtcmreader" in o["name"]:
        tries.append(("reader_history", reader_history_candidates(seed), "reader-history"))
    if "rtcmmessage" in o["name"]:
        from spec import streams, encoder
        cands = [{"payload": streams.good_payloads(rnd).hex()} for _ in range(20)] + [{"payload": p.hex()} for _, p in encoder.corpus(seed, per_type=1, patterns=("random",))][:60]
        tries.append(("immutable", iter(cands), "immutable"))
    tries.append(("history_independence", C13.history_candidates(seed, 80), "history"))
    for spec, cands, key in tries:
        r = try_candidates(spec, cands, key=lambda i, r, key=key: key)
        if r.get("reproduced"):
            return r
    return {"reproduced": True, "spec": "frame_scan", "input": {"obligation": o["name"]}, "expected": "no write outside the frame",
            "observed": o.get("model"), "key": o["name"]}


def reader_history_candidates(seed):
    """Two readers alive at the same time with different options, read alternately."""
    from spec import streams
    rnd = random.Random(seed)
    for k in range(60):
        a = b"".join(x[1] for x in streams.wellformed_stream(rnd))
        b = b"".join(x[1] for x in streams.wellformed_stream(rnd))
        if k % 2:
            f = streams.frame(streams.good_payloads(rnd))
            a += f[:-1] + bytes([f[-1] ^ 0x55])  # a frame with a wrong checksum: accepted by a validate=0 reader only
        yield {"streams": [a.hex(), b.hex()], "options": [{"validate": rnd.choice([0, 1]), "labelmsm": rnd.choice([1, 2])},
                                                           {"validate": rnd.choice([0, 1]), "labelmsm": rnd.choice([1, 2])}]}


def generic_replay(o, seed):
    """Dispatch on the function the obligation belongs to."""
    if o["name"].startswith("frame."):
        return frame_replay(o, seed)
    if o["name"].startswith(("tables.", "names.")):
        from props import C10
        return C10.replay(o, seed)
    if o["name"].startswith("api.constant"):
        return {"reproduced": True, "spec": "table_entry", "input": {"obligation": o["name"]}, "expected": "documented constant value",
                "observed": o.get("model"), "key": o["name"]}
    if o["name"].startswith("api."):
        from spec import streams, encoder, refdecode
        rnd = random.Random(seed)

        def cands():
            for ident in list(refdecode.tables()[2])[:40]:
                p = encoder.complete_message(ident, rnd, "random")
                if p is not None:
                    f = streams.frame(p)
                    for v, lm in ((1, 2), (2, 1), (0, 2), (2, 2), (3, 1)):
                        yield {"message": f.hex(), "validate": v, "labelmsm": lm}
                        yield {"message": (f[:-1] + bytes([f[-1] ^ 1])).hex(), "validate": v, "labelmsm": lm}
        r = try_candidates("positional_call", cands(), key=lambda i, r: "positional")
        if r.get("reproduced"):
            return r
        return {"reproduced": True, "spec": "signature", "input": {"obligation": o["name"]}, "expected": "pinned parameter order and defaults",
                "observed": o.get("model"), "key": o["name"]}
    n = (o.get("unit") or o["name"]).split("[")[0]
    if n.startswith(("crc.", "lemma", "C")) or "." not in n:
        n = o["name"]
    if n.startswith("client."):
        m = {"client.roundtrip_serialize_parse": M_ + ".serialize", "client.stub_serializes_to_same_frame": M_ + ".serialize",
             "client.crc_split": "pyrtcm.rtcmhelpers.calc_crc24q", "client.two_reads": "pyrtcm.rtcmreader.RTCMReader.read",
             "client.assignments_leave_message_unchanged": M_ + ".__setattr__",
             "client.parse_ignores_checksum_when_not_validating": "pyrtcm.rtcmreader.RTCMReader.parse"}
        n = m.get(n, n)
    if n.endswith(("rtcmhelpers.calc_crc24q", "rtcmhelpers.crc2bytes")):
        from props.common import byte_strings
        spec = n.rsplit(".", 1)[1]
        return try_candidates(spec, ({"message": m.hex()} for m in byte_strings(seed)), key=lambda i, r, spec=spec: spec)
    if n.endswith("rtcmhelpers.len2bytes"):
        return try_candidates("len2bytes", ({"length": k} for k in (0, 1, 2, 255, 256, 257, 511, 512, 1022, 1023, 1024, 65535, 65536)), key=lambda i, r: "len2bytes")
    if "socketwrapper" in n:
        from props import C11, C12
        r = C11.replay(o, seed)
        return r if r.get("reproduced") or not ("dechunk" in n or "chunked" in o["name"]) else C12.replay(o, seed)
    if n.endswith("RTCMReader.parse"):
        return try_candidates("parse_static", parse_candidates(o, seed), key=lambda i, r: "parse")
    if n.endswith("RTCMReader.__init__"):
        from spec import streams
        rnd = random.Random(seed)
        sh = ({"data": b"".join(x[1] for x in streams.wellformed_stream(rnd)).hex(), "readers": rnd.choice([2, 3])} for _ in range(30))
        r = try_candidates("shared_stream_readers", sh, key=lambda i, r: "shared-raw-stream")
        if r.get("reproduced"):
            return r
    if n.endswith(("RTCMReader.__iter__", "RTCMReader.__next__")):
        from spec import streams
        rnd = random.Random(seed)

        def it_cands():
            for k in range(200):
                items = streams.wellformed_stream(rnd)
                data = b"".join(streams.damage(b, rnd) if kind == "rtcm" and rnd.random() < 0.4 else b for kind, b, _ in items)
                yield {"data": data.hex(), "quitonerror": rnd.choice([2, 2, 1, 0])}
        r = try_candidates("iteration_protocol", it_cands(), key=lambda i, r: "iteration")
        if r.get("reproduced"):
            return r
    if "rtcmreader" in n or "ext.Stream" in n:
        cands = reader_candidates(o, seed)
        if "bytearray-stream" in (o.get("unit") or "") + o["name"]:
            cands = (dict(c, bytearray=True) for c in cands)
        if os.environ.get("PYVC_PROPERTY") in ("C05", "C17"):  # these two state how many bytes a (damaged) frame takes
            dmg = damaged_stream_candidates(seed)
            cands = itertools.chain(dmg, (dict(c, no_rewind=True) for c in cands))
        r = try_candidates("reader_safety", cands, key=lambda i, r: "reader")
        if r.get("reproduced"):
            return r
        return try_candidates("reader_complete", complete_candidates(o, seed), key=lambda i, r: "reader-complete")
    if n.endswith(".ismsm"):
        return try_candidates("ismsm", header_candidates(o, seed), key=lambda i, r: "ismsm")
    if n.endswith((".identity", "._get_dict", "._do_unknown")):
        r = try_candidates("identity", header_candidates(o, seed), key=lambda i, r: "identity")
        if r.get("reproduced"):
            return r
        return try_candidates("message_decode", message_candidates(o, seed), key=lambda i, r: "decode")
    if n.endswith((".serialize", ".__repr__", "len2bytes", ".payload")):
        from spec import streams
        rnd = random.Random(seed)
        cands = [{"payload": streams.payload_for(4095, k, rnd).hex()} for k in (2, 3, 255, 256, 257, 511, 512, 1022, 1023)]
        for tail in (b"\x01\x23", b"\x0f\xf0\xaa", b"\x00\x01"):  # same integer value, different length (history-dependent caches)
            cands += [{"payload": (b"\x00" * k + tail).hex()} for k in (0, 1, 2, 0)]
        cands += [{"payload": "d300020123aabbcc"}, {"payload": "d30003012345aabbcc"}]  # payloads that look like frames
        for _ in range(4):
            f = streams.frame_with_crc_inside(rnd, rnd.choice([8, 19, 40]))
            if f:
                cands.append({"payload": f[3:-3].hex()})
        cands += [{"payload": streams.good_payloads(rnd).hex()} for _ in range(60)]
        # the other label option; payload bytes that are special in format strings and string literals
        for tail in (b"{}", b"{", b"}}", b"{0}", b"%s", b"\\", b"'", b"\"", b"\n\r"):
            cands += [{"payload": (b"\xff\xf0" + tail).hex(), "labelmsm": lm} for lm in (2, 1, 0)]
        cands += [{"payload": streams.good_payloads(rnd).hex(), "labelmsm": 2} for _ in range(40)]
        return try_candidates("serialize", iter(cands), key=lambda i, r: "serialize")
    if n.endswith(".__setattr__"):
        from spec import streams, encoder
        rnd = random.Random(seed)
        cands = [{"payload": streams.good_payloads(rnd).hex()} for _ in range(40)]
        cands += [{"payload": p.hex()} for _, p in encoder.corpus(seed, per_type=1, patterns=("random",))]
        return try_candidates("immutable", iter(cands), key=lambda i, r: "immutable")
    if "rtcmmessage" in n:
        if n.endswith(".__init__"):  # every message number / sub-type header first (unknown and reserved numbers construct a stub)
            r = try_candidates("identity", header_candidates(o, seed), key=lambda i, r: "identity", limit=20000)
            if r.get("reproduced"):
                return r
        r = try_candidates("message_decode", message_candidates(o, seed), key=lambda i, r: "decode")
        if r.get("reproduced") or not n.endswith(".__init__"):
            return r
        from spec import streams, encoder
        rnd = random.Random(seed)
        cands = [{"payload": p.hex()} for _, p in encoder.corpus(seed, per_type=1, patterns=("random",))]
        cands += [dict(c, labelmsm=lm) for c in cands[::3] for lm in (0, 2, 3, False)]
        return try_candidates("immutable", iter(cands), key=lambda i, r: "immutable")
    return None
