"""C17 - Reader options have only their documented effect."""
from props.common import func_units
from props.replays import generic_replay

LEVEL = "proof"
R = "pyrtcm.rtcmreader.RTCMReader"
USES_EXTERNAL = ["ext.Stream.read", "ext.Stream.readline", "ext.errorhandler"]
TRUSTED = []
ASSUMPTIONS = ["as C02 (fault-free stream, ghost item partition)"]
ARGUED = ["'the same raw frames in the same order with parsing off': in Ret(p) parsing-off returns every RTCM item; for streams of valid "
          "(parseable) frames that is the same set as with parsing on, and in both cases pos' = iend(p)",
          "'neither option changes how many bytes are taken for a frame': _parse_rtcm3.post.raw_is_whole_frame_slice and the exceptional "
          "post mention src and pos only"]
EXPLANATION = ("parse(): the validate bit gates only the CRC test (post: result is RTCMMessage(message[3:-3], labelmsm) whenever the test "
               "does not fire); _parse_rtcm3: the parsed flag gates only the parse call, after the frame is read; read() returns exactly "
               "the items described by the option-dependent predicate Ret; the constructor stores options without touching the stream.")


def units(tier):
    us = []
    # "for a stream of valid frames and foreign-protocol data": the foreign items are taken whole (their own length fields), so
    # both settings of `parsed` see the same frames
    for q in ("parse", "_parse_rtcm3", "_read_bytes", "_read_line", "_parse_ubx", "_parse_nmea", "read", "__init__", "_do_error"):
        us += func_units(f"{R}.{q}", tier)
    us += func_units("pyrtcm.rtcmmessage.RTCMMessage.__init__", tier)
    from props.common import socket_units
    us += socket_units(tier)  # 'the same raw frames in the same order' over socket-backed streams too
    from pyvc import clientrun
    us.append(clientrun.unit("parse_ignores_checksum_when_not_validating", clientrun.lemma_validate_off))
    from spec import api
    from props.common import ground_unit as _gu
    us.append(_gu("api.signatures", api.signature_lemmas(['pyrtcm.rtcmreader.RTCMReader.parse', 'pyrtcm.rtcmmessage.RTCMMessage.__init__', 'pyrtcm.rtcmreader.RTCMReader.__init__'])))
    return us


def replay(o, seed):
    return generic_replay(o, seed)
