"""C10 - Message layouts conform to the published standards and to each other."""
from props.common import func_units, ground_unit, lemma_unit
from props.replays import generic_replay
from spec import tablecheck, msm

LEVEL = "proof"
M = "pyrtcm.rtcmmessage.RTCMMessage"
TRUSTED = []
ASSUMPTIONS = ["pinned length formulas / sibling relations / MSM tables are the author's transcription of RTCM 10403.3 and IGS SSR v1.00 "
               "(spec/pinned.py); entries marked 'tree@framework-build-time' (1014-1017, 1021-1027, 1030-1035, 1037-1039, 1300-1305) "
               "could not be sourced independently offline and only detect later edits",
               "field TYPES and resolutions are taken from the tree (C03 proves the decoder honours them)"]
ARGUED = ["'every identity that has a definition can be decoded': WF (every field defined, every count/condition decoded earlier, shapes "
          "well-formed) + the walk contracts (C03-L2/L3: failure only if R fails) + leaf contract (failure only if bits missing)",
          "'parallel families decode the same bits to the same values': equal field sequences (ground) + leaf contract: the value is a "
          "function of (field definition, bits)"]
EXPLANATION = ("closed obligations over the real tables, discharged by evaluation: well-formedness of all definitions, structural equality "
               "of each layout's (header bits, per-block bits, per-inner-block bits) with the pinned standard formula for all counts, "
               "sibling field-sequence relations, MSM tables against the pinned RINEX/PRN tables; plus the dispatch obligations of _get_dict "
               "for every possible identity and the walk/leaf contracts they rest on.")


def units(tier):
    us = [ground_unit("tables.WF", tablecheck.wf_lemmas), ground_unit("tables.lengths", tablecheck.length_lemmas),
          ground_unit("tables.siblings", tablecheck.sibling_lemmas), ground_unit("tables.msm", tablecheck.msm_table_lemmas),
          ground_unit("tables.naming", tablecheck.naming_lemmas)]
    us += func_units(M + "._get_dict", tier)
    us += func_units(M + "._do_attributes", tier)
    us += func_units(M + "._set_attribute_group", tier)
    us += func_units(M + "._set_attribute_optional", tier)
    us += func_units(M + "._set_attribute", tier)
    # data-dependent sizes are part of the length formulas: cell-mask width and 4076_201 coefficient counts
    us += func_units(M + "._set_attribute_single", tier, only=lambda i: i["field"] in ("DF394", "DF395", "DF396", "IDF035", "IDF037", "IDF038"))
    from contracts.message_leaf import coefficient_count_lemma
    us.append(ground_unit("igs.coefficient_counts", coefficient_count_lemma))
    us.append(ground_unit("tables.field_entries", tablecheck.field_entry_lemmas))
    us.append(ground_unit("tables.identity_set", tablecheck.identity_set_lemmas))
    # "every defined identity can be decoded": the MSM maps are built for every mask (no mask makes a defined MSM type fail)
    us += func_units(M + "._getsatcellmaps", tier)
    from spec import msm as _msm
    from props.common import lemma_unit as _lu
    us.append(_lu("msm.fold_lemmas", _msm.fold_lemmas))
    return us


def replay(o, seed):
    if o["name"].startswith(("tables.", "names.")):
        # a closed obligation over the tables: the failing entry is the counterexample; show its effect on the real
        # decoder where one exists
        r = generic_replay({"name": M + "._do_attributes", "unit": M + "._do_attributes", "model": {}}, seed)
        if r and r.get("reproduced"):
            r["key"] = o["name"]
            return r
        return {"reproduced": True, "spec": "table_entry", "input": {"obligation": o["name"]}, "expected": "entry as pinned / well-formed",
                "observed": o.get("model"), "key": o["name"]}
    return generic_replay(o, seed)
