"""C05 - A damaged frame costs exactly that frame; error modes differ only in reporting."""
from props.common import func_units, lemma_unit, ground_unit
from props.replays import generic_replay
from spec import crc_lemmas

LEVEL = "proof"
R = "pyrtcm.rtcmreader.RTCMReader"
USES_EXTERNAL = ["ext.Stream.read", "ext.Stream.readline", "ext.errorhandler"]
TRUSTED = []
ASSUMPTIONS = ["as C02 (fault-free stream, ghost item partition with kinds 'RTCM valid' and 'RTCM damaged = intact 3-byte header, CRC != 0')",
               "that the listed damage classes (1-3 flipped bits, bursts <= 24 bits behind the header) give CRC != 0 is C08's detection lemmas "
               "(re-discharged here); 3 flipped bits are covered as odd weight"]
ARGUED = ["'after such an exception the same reader keeps working': the exceptional post leaves pos at the damaged item's end, an item "
          "boundary, which is the precondition of the next read()"]
EXPLANATION = ("_parse_rtcm3 is proved to have consumed the whole frame before any validation error can surface; _do_error is proved to "
               "raise only in raise mode and to call the handler exactly once in log mode; read()'s invariant counts handler calls = bad "
               "frames skipped (log mode) / 0 (ignore mode) and in raise mode the exception leaves the stream at the next item.")


def units(tier):
    us = []
    for q in ("_read_bytes", "_parse_rtcm3", "parse", "_do_error", "read", "__next__", "__iter__", "__init__"):  # __init__: the error mode the caller chose is the one stored
        us += func_units(f"{R}.{q}", tier)
    # "returns exactly the undamaged frames": an undamaged frame's payload is refused by the constructor only when it lacks the
    # identity header (fewer than 2 bytes / 3 for 4076) or does not decode - never for being short but complete
    Mq = "pyrtcm.rtcmmessage.RTCMMessage"
    us += func_units(Mq + ".__init__", tier)
    us += func_units(Mq + ".identity", tier)
    us += func_units(Mq + "._get_dict", tier)
    us += func_units(Mq + "._do_attributes", tier, only=lambda inst: inst["identity"].startswith("unknown"))
    # socket-backed streams (plain / chunked): 'returns exactly the undamaged frames' needs every byte of them delivered once, in order
    from props.common import socket_units
    us += socket_units(tier)
    us.append(lemma_unit("crc.step_lemmas", crc_lemmas.step_lemmas))
    us.append(lemma_unit("crc.induction_lemmas", crc_lemmas.induction_lemmas))
    us.append(ground_unit("crc.ground_lemmas", crc_lemmas.ground_lemmas))
    return us


def replay(o, seed):
    return generic_replay(o, seed)
