"""C03 - Every data field decodes to the value its bits encode, for all message types."""
from props.common import func_units, ground_unit, lemma_unit
from props.replays import generic_replay
from spec import tablecheck, msm

LEVEL = "proof"
M = "pyrtcm.rtcmmessage.RTCMMessage"
TRUSTED = []
ASSUMPTIONS = ["raw * resolution for float resolutions is an uninterpreted function (same symbol in code and spec): the identity of the "
               "operation is proved, floating-point rounding is not",
               "true division in the 4076_201 coefficient-count formula is modelled as exact real arithmetic (exact for |values| < 2^53)",
               "the reference interpreter R leaves the leaf transformer uninterpreted in the walk proofs (L2/L3); its meaning is the leaf "
               "contract (L1); composing the three layers is by modularity of contracts",
               "NUL code units of STR fields may be dropped or kept (the statement only says 'joined')"]
ARGUED = ["'changing the bits of one plain field changes that attribute only; bytes after the last field change nothing': by the leaf "
          "contract each attribute is a function of exactly its own bit range [offset, offset+width) and of nothing beyond the final "
          "offset; R never reads at or after it",
          "attribute order / 'no other data attribute appears': leaf frame obligations (only the named attribute, plus NSat/NSig/NCell)"]
EXPLANATION = ("three layers over the REAL tables loaded on this run: L1 - _set_attribute_single verified once per data field and nesting "
               "depth (symbolic offset, indices, payload bits) against the typed decode of exactly its bits; L2 - the recursive walk verified "
               "per concrete table node against the reference layout interpreter R (loop invariants over Iter, unbounded repeat counts); "
               "L3 - _do_attributes per identity; plus the MSM maps (C09) and the fold/indexing lemmas.")


def units(tier):
    from contracts.message_leaf import coefficient_count_lemma
    us = []
    us += func_units(M + "._set_attribute_single", tier)
    us += func_units(M + "._getsatcellmaps", tier)
    for q in ("_set_attribute", "_set_attribute_group", "_set_attribute_optional", "_do_attributes", "__init__"):
        us += func_units(f"{M}.{q}", tier)
    us.append(lemma_unit("msm.fold_lemmas", msm.fold_lemmas))
    us.append(ground_unit("igs.coefficient_counts", coefficient_count_lemma))
    us.append(ground_unit("tables.naming", tablecheck.naming_lemmas))
    us.append(ground_unit("tables.WF", tablecheck.wf_lemmas))
    us.append(ground_unit("tables.field_entries", tablecheck.field_entry_lemmas))
    # 'the payload obtained by laying those fields out in definition order': the definition is the standard's layout (pinned) - a
    # definition whose repeat key, group content or field widths depart from it decodes a conformant payload to wrong values
    us.append(ground_unit("tables.lengths", tablecheck.length_lemmas))
    us.append(ground_unit("tables.siblings", tablecheck.sibling_lemmas))
    us.append(ground_unit("tables.msm", tablecheck.msm_table_lemmas))
    return us


def replay(o, seed):
    return generic_replay(o, seed)
