"""C13 - A parse result depends only on the bytes parsed, not on history or threads."""
import ast
import os
import random

from props.common import func_units, ground_unit
from props.replays import generic_replay

LEVEL = "proof"
M = "pyrtcm.rtcmmessage.RTCMMessage"
R = "pyrtcm.rtcmreader.RTCMReader"
TRUSTED = []
ASSUMPTIONS = ["CPython threads can only affect objects reachable from a shared reference; the thread clause is ARGUED from the frame "
               "conditions (every write of a parse goes to objects allocated by that parse and not yet published), not machine-checked",
               "a bounded history sweep (sequences of parses across constellations / types / failing inputs compared with the history-free "
               "reference decoder, tables snapshotted) backs the frame argument; labelled bounded"]
ARGUED = ["the constructor is a function of (payload, labelmsm, tables): it reads no mutable state outside its own object (scan + symbolic "
          "execution: any store whose root is a module global, class attribute or table constant is outside the modelled subset and is "
          "reported), so results cannot depend on earlier parses or on parses running concurrently"]
EXPLANATION = ("frame (assigns) obligations of every function of the decode path - the leaf writes only its own attribute (+ MSM counters), "
               "the walk only its index list and the message state, _getsatcellmaps only the two maps - plus a syntactic scan: no "
               "global/nonlocal, no mutable default arguments, no module-level mutable state in the code modules, no store or mutating call "
               "whose root is not a local, self or an own container, table modules are literal dict/tuple/str data.")

CODE_MODULES = ["pyrtcm.rtcmmessage", "pyrtcm.rtcmreader", "pyrtcm.rtcmhelpers", "pyrtcm.socketwrapper"]
TABLE_MODULES = ["pyrtcm.rtcmtypes_core", "pyrtcm.rtcmtypes_get", "pyrtcm.rtcmtypes_get_msm", "pyrtcm.rtcmtypes_get_igs", "pyrtcm.rtcmtables"]
MUTATORS = {"append", "pop", "update", "clear", "extend", "insert", "remove", "setdefault", "popitem", "add", "discard", "sort", "reverse", "__setitem__", "__delitem__"}


def root_name(n):
    while isinstance(n, (ast.Attribute, ast.Subscript, ast.Call)):
        n = n.value if not isinstance(n, ast.Call) else n.func
    return n.id if isinstance(n, ast.Name) else None


def immutable_literal(v):
    if isinstance(v, ast.Constant):
        return True
    if isinstance(v, ast.UnaryOp) and isinstance(v.operand, ast.Constant):
        return True
    return isinstance(v, ast.Tuple) and all(immutable_literal(e) for e in v.elts)


def immutable_value(v, depth=0):
    import types
    if v is None or isinstance(v, (bool, int, float, complex, str, bytes, range, type, types.FunctionType, types.BuiltinFunctionType,
                                   types.ModuleType, property, staticmethod, classmethod)):
        return True
    if isinstance(v, (tuple, frozenset)) and depth < 4:
        return all(immutable_value(x, depth + 1) for x in v)
    return type(v).__module__ in ("logging",) or type(v).__name__ in ("Logger", "Pattern")  # loggers / compiled patterns: no parse state


def bound_value_is_immutable(holder, x):
    """The statement binds plain names whose run-time values (read off the imported module / class) are immutable objects."""
    tg = x.targets if isinstance(x, ast.Assign) else [x.target] if isinstance(x, ast.AnnAssign) and x.value is not None else None
    if not tg or not all(isinstance(t, ast.Name) for t in tg):
        return False
    missing = object()
    return all(immutable_value(getattr(holder, t.id, missing)) and getattr(holder, t.id, missing) is not missing for t in tg)


def immutable_binding(x):
    if isinstance(x, ast.Assign):
        return immutable_literal(x.value)
    if isinstance(x, ast.AnnAssign):
        return x.value is None or immutable_literal(x.value)
    return False


# what a parse result, a helper result or a reader's behaviour must not depend on: the process environment, the console encoding,
# the locale, the clock, random numbers, object addresses, the per-process string hash seed
AMBIENT_ATTRS = {("os", "environ"), ("os", "getenv"), ("os", "getcwd"), ("sys", "stdout"), ("sys", "stdin"), ("sys", "stderr"), ("sys", "argv"),
                 ("sys", "getdefaultencoding"), ("sys", "getfilesystemencoding"), ("sys", "flags"), ("datetime", "now"), ("datetime", "today"),
                 ("datetime", "utcnow"), ("date", "today")}
AMBIENT_MODULES = {"locale", "time", "random", "secrets", "platform", "getpass"}
AMBIENT_CALLS = {"getenv", "id", "hash", "input", "getpreferredencoding", "getdefaultencoding"}
READ_ONLY_METHODS = {"get", "keys", "values", "items", "index", "count", "copy", "startswith", "endswith", "find", "join", "format",
                     "hex", "decode", "encode", "split", "rsplit", "strip", "lower", "upper"}


def used_only_for_reading(scope, name, via=None):
    """True if every occurrence of `name` (or `<via>.name`, e.g. self.X / Class.X) inside `scope` merely reads the object:
    subscript load, membership test, iteration, len(), a call of a non-mutating method.  Any other occurrence (a store, a
    mutator, an alias, an argument, a return) may change or leak it and counts as a use of shared state."""
    parents = {}
    for n in ast.walk(scope):
        for c in ast.iter_child_nodes(n):
            parents[id(c)] = n

    def is_ref(n):
        if via is None:
            return isinstance(n, ast.Name) and n.id == name
        return isinstance(n, ast.Attribute) and n.attr == name and isinstance(n.value, ast.Name) and n.value.id in via

    for n in ast.walk(scope):
        if not is_ref(n):
            continue
        if not isinstance(n.ctx, ast.Load):
            return False
        p = parents.get(id(n))
        if isinstance(p, ast.Subscript) and p.value is n and isinstance(p.ctx, ast.Load):
            continue
        if isinstance(p, ast.Compare) and n in p.comparators and all(isinstance(o, (ast.In, ast.NotIn)) for o in p.ops):
            continue
        if isinstance(p, (ast.For, ast.comprehension)) and p.iter is n:
            continue
        if isinstance(p, ast.Call) and isinstance(p.func, ast.Name) and p.func.id == "len" and p.args == [n]:
            continue
        if isinstance(p, ast.Attribute) and p.value is n and p.attr in READ_ONLY_METHODS and isinstance(parents.get(id(p)), ast.Call) \
                and parents[id(p)].func is p:
            continue
        return False
    return True


def scan():
    from pyvc import extract
    out = []
    for mod in CODE_MODULES:
        tree, _ = extract.module_ast(mod)
        # module level: imports, docstring, constants, defs; a name bound to anything else is shared state unless the code only
        # ever reads the object (or never touches it, like __all__)
        bad_top = []
        for st in tree.body:
            if isinstance(st, (ast.Import, ast.ImportFrom, ast.FunctionDef, ast.ClassDef)):
                continue
            if isinstance(st, ast.Expr) and isinstance(st.value, ast.Constant):
                continue
            if immutable_binding(st) or bound_value_is_immutable(extract.module(mod), st):
                continue  # immutable constants (literal, or computed: the value the name holds after import is immutable)
            names = [t.id for t in (st.targets if isinstance(st, ast.Assign) else [st.target] if isinstance(st, ast.AnnAssign) else [])
                     if isinstance(t, ast.Name)]
            fbodies = ast.Module(body=[x for x in tree.body if isinstance(x, (ast.FunctionDef, ast.ClassDef))], type_ignores=[])
            if names and isinstance(st, (ast.Assign, ast.AnnAssign)) and all(used_only_for_reading(fbodies, nm) for nm in names):
                continue
            bad_top.append(f"line {st.lineno}: {ast.unparse(st)[:60]}")
        out.append((f"frame.module_has_no_mutable_state[{mod}]", not bad_top, {"statements": bad_top}))
        funcs = []
        for n in tree.body:
            if isinstance(n, ast.FunctionDef):
                funcs.append((None, n))
            elif isinstance(n, ast.ClassDef):
                # class-level names bound to immutable literals are constants, not state; anything else (a list, dict, set, bytearray,
                # a call) is shared by every instance, and an in-place update through self.<name> would leak from one object into the next
                cls_bad = []
                for x in n.body:
                    if isinstance(x, (ast.FunctionDef, ast.Expr, ast.Pass)) or immutable_binding(x) \
                            or bound_value_is_immutable(getattr(extract.module(mod), n.name, None), x):
                        continue
                    names = [t.id for t in (x.targets if isinstance(x, ast.Assign) else [x.target] if isinstance(x, ast.AnnAssign) else [])
                             if isinstance(t, ast.Name)]
                    if names and all(used_only_for_reading(tree, nm, via={"self", "cls", n.name})
                                     and used_only_for_reading(ast.Module(body=[f for f in n.body if isinstance(f, ast.FunctionDef)], type_ignores=[]), nm)
                                     for nm in names):
                        continue  # never written through self / the class, never aliased: a constant
                    cls_bad.append(f"line {x.lineno}: {ast.unparse(x)[:60]}")
                out.append((f"frame.class_has_no_class_level_state[{mod}.{n.name}]", not cls_bad, {"statements": cls_bad}))
                funcs += [(n.name, x) for x in n.body if isinstance(x, ast.FunctionDef)]
        for cls, fn in funcs:
            q = f"{mod}.{cls + '.' if cls else ''}{fn.name}"
            bad = []
            params = {a.arg for a in fn.args.args + fn.args.kwonlyargs}
            locals_ = set(params)
            for n in ast.walk(fn):
                if isinstance(n, ast.Name) and isinstance(n.ctx, ast.Store):
                    locals_.add(n.id)
                if isinstance(n, ast.ExceptHandler) and n.name:
                    locals_.add(n.name)
            pos = fn.args.posonlyargs + fn.args.args
            with_defaults = list(zip(pos[len(pos) - len(fn.args.defaults):], fn.args.defaults)) + \
                [(a, d) for a, d in zip(fn.args.kwonlyargs, fn.args.kw_defaults) if d is not None]
            for a, d in with_defaults:
                if isinstance(d, (ast.Constant, ast.Name)) or immutable_literal(d):
                    continue
                if not used_only_for_reading(ast.Module(body=fn.body, type_ignores=[]), a.arg):
                    bad.append(f"line {d.lineno}: mutable default argument {a.arg}={ast.unparse(d)[:30]} (one object shared by every call)")
            for n in ast.walk(fn):
                if isinstance(n, (ast.Global, ast.Nonlocal)):
                    bad.append(f"line {n.lineno}: {type(n).__name__.lower()}")
                tg = []
                if isinstance(n, ast.Assign):
                    tg = n.targets
                elif isinstance(n, (ast.AugAssign, ast.AnnAssign)):
                    tg = [n.target]
                elif isinstance(n, ast.Delete):
                    tg = n.targets
                for t in tg:
                    for sub in ([t] if not isinstance(t, (ast.Tuple, ast.List)) else t.elts):
                        if isinstance(sub, (ast.Attribute, ast.Subscript)):
                            r = root_name(sub)
                            if r not in locals_:
                                bad.append(f"line {sub.lineno}: store to {ast.unparse(sub)} (root {r} is not a local)")
                if isinstance(n, ast.Call) and isinstance(n.func, ast.Attribute) and n.func.attr in MUTATORS:
                    r = root_name(n.func.value)
                    if r not in locals_:
                        bad.append(f"line {n.lineno}: {ast.unparse(n.func)}() mutates {r}, not a local")
                if isinstance(n, ast.Call) and isinstance(n.func, ast.Name) and n.func.id in ("setattr", "delattr") and n.args:
                    r = root_name(n.args[0])
                    if r not in locals_:
                        bad.append(f"line {n.lineno}: {n.func.id} on {r}")
                if isinstance(n, ast.Call) and isinstance(n.func, ast.Name) and n.func.id in ("globals", "vars", "exec", "eval", "__import__"):
                    if not (n.func.id == "vars" and n.args):
                        bad.append(f"line {n.lineno}: {n.func.id}()")
            out.append((f"frame.writes_only_locals_self_or_own_containers[{q}]", not bad, {"violations": bad[:5]}))
            amb = []
            for n in ast.walk(fn):
                if isinstance(n, ast.Attribute) and isinstance(n.value, ast.Name) and (n.value.id, n.attr) in AMBIENT_ATTRS:
                    amb.append(f"line {n.lineno}: {n.value.id}.{n.attr}")
                elif isinstance(n, ast.Attribute) and isinstance(n.value, ast.Name) and n.value.id in AMBIENT_MODULES and n.value.id not in locals_:
                    amb.append(f"line {n.lineno}: {n.value.id}.{n.attr}")
                elif isinstance(n, ast.Call) and isinstance(n.func, ast.Name) and n.func.id in AMBIENT_CALLS and n.func.id not in locals_:
                    amb.append(f"line {n.lineno}: {n.func.id}()")
            out.append((f"frame.reads_no_ambient_process_state[{q}]", not amb, {"reads": amb[:5]}))
    for mod in TABLE_MODULES:
        tree, _ = extract.module_ast(mod)
        bad = []
        for n in ast.walk(tree):
            if isinstance(n, (ast.Set, ast.SetComp)):
                bad.append(f"line {n.lineno}: set literal (hash-ordered) in a definition table")
            if isinstance(n, (ast.FunctionDef, ast.ClassDef, ast.Lambda)):
                bad.append(f"line {n.lineno}: code in a table module")
        out.append((f"frame.table_module_is_literal_data[{mod}]", not bad, {"violations": bad[:5]}))
    return out


def units(tier):
    us = [ground_unit("C13.frame_scan", scan)]
    us += func_units(M + "._set_attribute_single", tier)
    us += func_units(M + "._getsatcellmaps", tier)
    for q in ("_set_attribute_group", "_set_attribute_optional", "_set_attribute", "_do_attributes", "__init__", "_do_unknown", "identity", "_get_dict"):
        us += func_units(f"{M}.{q}", tier)
    us += func_units(R + ".parse", tier)
    us += func_units(R + "._parse_rtcm3", tier)
    # "through however many reader objects": what a reader returns depends on its options and the stream position only - its
    # contracts are stated over exactly that state (no counters, no memory of earlier frames or errors)
    for q in ("read", "_do_error", "_read_bytes", "__init__", "__next__"):
        us += func_units(f"{R}.{q}", tier)
    # ... and through a socket wrapper: what it hands out depends on the peer's bytes only, not on how earlier bytes arrived
    # (its class invariant: buffer = received-but-undelivered bytes, partial = undecoded tail from a chunk boundary)
    from props.common import socket_units
    us += socket_units(tier, safety_only=True)
    return us


def history_candidates(seed, n=60):
    from spec import encoder, refdecode
    rnd = random.Random(seed)
    msm = sorted(refdecode.tables()[2])
    idents = encoder.all_identities()
    for k in range(n):
        seq = []
        if k % 2 == 0:
            # the same MSM body under different constellations (identical masks), both label options
            level = rnd.randrange(1, 8)
            base = encoder.complete_message(f"107{level}", rnd, "random")
            if base is None:
                continue
            for pre in rnd.sample(["107", "108", "109", "110", "111", "112", "113"], 4):
                mid = int(f"{pre}{level}")
                p = bytes([mid >> 4, ((mid & 0xF) << 4) | (base[1] & 0xF)]) + base[2:]
                seq.append([p.hex(), rnd.choice([1, 2]), rnd.choice(["ctor", "parse"])])
        else:
            for _ in range(rnd.randrange(2, 6)):
                ident = rnd.choice(idents)
                p = encoder.complete_message(ident, rnd, "random")
                if p is None:
                    continue
                r = rnd.random()
                if r < 0.25 and len(p) > 4:
                    p = p[:rnd.randrange(2, len(p))]  # a failing parse in the history
                seq.append([p.hex(), rnd.choice([1, 2]), rnd.choice(["ctor", "parse"])])
                if r > 0.7:
                    seq.append([p.hex(), rnd.choice([1, 2]), "parse"])  # the same bytes again
        if seq:
            yield {"sequence": seq}


def replay(o, seed):
    from props.common import try_candidates
    n = o.get("unit") or o["name"]
    r = try_candidates("history_independence", history_candidates(seed, 80), key=lambda i, r: "history")
    if r.get("reproduced"):
        return r
    if o["name"].startswith("frame."):
        from props.replays import frame_replay
        return frame_replay(o, seed)
    if "socketwrapper" in o["name"]:
        from props.C11 import sock_candidates
        cands = ({"streams": [[d.hex(), [x for x in sc if isinstance(x, int)], bs] for d, sc, bs in list(sock_candidates(seed + j))[:3]]}
                 for j in range(40))
        r = try_candidates("socket_history", cands, key=lambda i, r: "socket-history")
        if r.get("reproduced"):
            return r
    if o["name"].startswith("frame."):
        return {"reproduced": True, "spec": "frame_scan", "input": {"obligation": o["name"]}, "expected": "no write outside the frame",
                "observed": o.get("model"), "key": o["name"]}
    return generic_replay(o, seed)


def bounded(tier, seed, results):
    from pyvc import check as chk
    inputs = list(history_candidates(seed, 40 if tier == "quick" else 400))
    res = chk.run_replay_batch("history_independence", inputs)
    out = {"name": "C13.history_sweep", "kind": "bounded", "bound": f"{len(inputs)} parse sequences (2-8 steps; cross-constellation MSM bodies, "
           "failing parses, repeats; constructor and static parser; both label options)", "evaluations": sum(len(i["sequence"]) for i in inputs),
           "violation": False}
    if res.get("fails"):
        import json
        os.makedirs(os.path.join(chk.OUT, "replays", "C13"), exist_ok=True)
        path = os.path.join(chk.OUT, "replays", "C13", "history-bounded.json")
        json.dump({"property": "C13", "obligation": "C13.history_sweep (bounded stand-in)", "reproduced_on_real_code": True,
                   "replay_spec": "history_independence", "input": res.get("input"), "expected": res.get("expected"), "observed": res.get("observed")},
                  open(path, "w"), indent=1, default=str)
        out.update({"violation": True, "replay": os.path.relpath(path, chk.OUT), "key": "history"})
    return [out]
