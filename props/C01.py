"""C01 - Reader delivers only intact, exactly-delimited RTCM3 frames (safety)."""
from props.common import func_units, lemma_unit
from props.replays import generic_replay
from spec import crc_lemmas

LEVEL = "proof"
R = "pyrtcm.rtcmreader.RTCMReader"
USES_EXTERNAL = ["ext.Stream.read", "ext.Stream.readline", "ext.errorhandler"]
TRUSTED = []
ASSUMPTIONS = ["the stream handed to the reader honours the read/readline contract of DESIGN 3.1 (returns only bytes it consumes, in "
               "order); every short or empty read anywhere is covered by that contract's nondeterminism",
               "for the library's own SocketWrapper (plain and chunked) that contract is not assumed but discharged in this check: the safety obligations of its five functions and the refinement lemmas lemma.refines.SocketWrapper.* (progress obligations are left to C02/C04/C11/C12)"]
ARGUED = ["'successive pairs come from non-overlapping slices in stream order': every returned raw ends at the ghost position pos' and "
          "starts at or after the position pos0 at which that read() began (read.post.raw_is_contiguous_slice_of_stream), and pos never "
          "decreases (read.always.pos_monotone)",
          "'message number is the one carried by the slice': message_payload_is_frame_payload + identity contract (C15)"]
EXPLANATION = ("read() is verified against a ghost byte stream with arbitrary short/empty reads: whatever it returns is a slice "
               "src[s:pos'] with preamble, six zero bits, matching length field and (validation on) zero CRC-24Q by the spec "
               "definition, and the message's payload is that slice minus 3+3 bytes. Loop cut at an invariant: no bound on stream "
               "length, noise or number of iterations.")


def units(tier):
    us = []
    for q in ("_read_bytes", "_read_line", "_parse_rtcm3", "_parse_ubx", "_parse_nmea", "parse", "read", "__next__", "__iter__", "_do_error"):
        us += func_units(f"{R}.{q}", tier)
    us += func_units("pyrtcm.rtcmhelpers.calc_crc24q", tier)
    us += func_units("pyrtcm.rtcmmessage.RTCMMessage.__init__", tier)
    us += func_units("pyrtcm.rtcmmessage.RTCMMessage.identity", tier)
    # 'whatever the underlying stream injects': when that stream is the library's own socket wrapper (plain or chunked), the slices
    # are slices of the peer's (decoded) byte stream only if the wrapper hands those bytes on in order, inventing / repeating nothing
    from props.common import socket_units
    us += socket_units(tier, safety_only=True)
    from pyvc import clientrun
    us.append(clientrun.unit("two_reads", clientrun.lemma_two_reads))
    return us


def replay(o, seed):
    n = o["name"]
    if "calc_crc24q" in n:
        from props import C08
        return C08.replay(o, seed)
    return generic_replay(o, seed)
