"""C07 - Serialize and parse are mutual inverses and framing is canonical."""
from props.common import func_units, lemma_unit
from props.replays import generic_replay
from spec import crc_lemmas

LEVEL = "proof"
M = "pyrtcm.rtcmmessage.RTCMMessage"
H = "pyrtcm.rtcmhelpers."
TRUSTED = []
ASSUMPTIONS = ["eval(repr(b)) == b for bytes (language property); the repr text is 'RTCMMessage(payload=' + repr(payload) + ')'",
               "the constructed message is a function of (payload, labelmsm) only (C13 frame conditions)"]
ARGUED = ["(now machine-checked as client lemmas: client.roundtrip_serialize_parse.*, client.stub_serializes_to_same_frame.*; what "
          "remains argued is only that 'same payload' implies 'same identity and attribute values' - the constructor is a function of "
          "(payload, labelmsm), C13)",
          "parse(serialize(m)).payload == m.payload: serialize.post.canonical_frame + lemma append_own_crc_gives_zero (CRC of the "
          "frame is 0, so parse does not reject) + parse.post.payload_is_message_3_to_minus3",
          "serialize(parse(f)) == f for a valid frame f: parse keeps f[3:-3]; serialize rebuilds D3, be16(len) = f[1:3] "
          "(length field of a well-formed frame), payload, and the CRC trailer, which equals f[-3:] by lemma trailer_unique"]
EXPLANATION = ("serialize is proved to produce the canonical frame (header byte, be16 length with six zero bits up to 1023, payload, "
               "be24 of the spec CRC) for every payload; the two round trips follow from that, parse's contract and two CRC lemmas.")


def units(tier):
    us = []
    for q in (M + ".serialize", M + ".__repr__", M + ".payload", H + "len2bytes", H + "crc2bytes", H + "calc_crc24q",
              "pyrtcm.rtcmreader.RTCMReader.parse", M + ".__init__"):
        us += func_units(q, tier)
    us.append(lemma_unit("crc.step_lemmas", crc_lemmas.step_lemmas))
    # 'for every valid frame, parsing then serialising reproduces the frame': parsing a valid frame must SUCCEED - a payload that is
    # complete for its type's layout constructs (the decode walk raises only where the reference interpreter fails, the MSM maps
    # raise nothing, unknown numbers give a stub)
    from props.common import decode_path_units
    have = {u.name for u in us}
    us += [u for u in decode_path_units(tier) if u.name not in have]
    # the two round trips as lemmas over the contracts (client programs executed with calls by contract)
    from pyvc import clientrun
    us.append(clientrun.unit("roundtrip_serialize_parse", clientrun.lemma_roundtrip))
    us.append(clientrun.unit("stub_serializes_to_same_frame", clientrun.lemma_parse_serialize))
    us.append(clientrun.unit("crc_split", clientrun.lemma_crc_split))
    from spec import api
    from props.common import ground_unit as _gu
    us.append(_gu("api.signatures", api.signature_lemmas(['pyrtcm.rtcmreader.RTCMReader.parse', 'pyrtcm.rtcmmessage.RTCMMessage.__init__'])))
    return us


def replay(o, seed):
    n = o["name"]
    if "calc_crc24q" in n or "crc2bytes" in n:
        from props import C08
        return C08.replay(o, seed)
    return generic_replay(o, seed)
