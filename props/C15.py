"""C15 - Identity is the transmitted message number; unknown types are preserved."""
from props.common import func_units, ground_unit
from props.replays import generic_replay

LEVEL = "proof"
M = "pyrtcm.rtcmmessage.RTCMMessage"
TRUSTED = []
ASSUMPTIONS = ["_get_dict / ismsm: exhaustive case split over all 4095+256 identity headers, each case decided by evaluating "
               "the real AST with the header bytes concrete and the tail symbolic"]
ARGUED = ["'for implemented types the decoded message-number field equals the identity': every definition starts with DF002 / "
          "DF002, IDF001, IDF002 (ground lemma) + leaf contract of those fields (L1 units included here) + identity.post + the lemmas "
          "client.df002_leaf_value_is_identity_number / client.idf002_leaf_value_is_4076_subtype - only the chaining of these is argued"]
EXPLANATION = ("identity is proved for all payloads (symbolic header bytes) against an integer-arithmetic spec; dispatch, the MSM "
               "predicate and the unknown-type stub for every one of the 4351 possible identity headers; serialize of a stub by C07.")


def table_lemmas():
    from pyvc import extract
    from contracts.message import payload_tables
    out = []
    g, m, i = payload_tables()
    for t in (g, m, i):
        for ident, d in t.items():
            keys = list(d)
            ok = keys[:1] == ["DF002"] and (not ident.startswith("4076") or keys[:3] == ["DF002", "IDF001", "IDF002"])
            out.append((f"tables.definition_starts_with_message_number[{ident}]", ok, {"first_keys": keys[:3]}))
    over = (set(g) & set(m)) | (set(g) & set(i)) | (set(m) & set(i))
    out.append(("tables.three_definition_tables_are_disjoint", not over, {"overlap": sorted(over)}))
    ids = extract.module("pyrtcm.rtcmtypes_core").RTCM_MSGIDS
    out.append(("tables.49_msm_types_implemented", len(m) == 49 and all(k in ids and "MSM" in ids[k] for k in m), {"n": len(m)}))
    return out


def units(tier):
    us = []
    for q in ("identity", "_get_dict", "ismsm", "_do_unknown", "serialize", "payload"):
        us += func_units(f"{M}.{q}", tier)
    us += func_units(f"{M}._do_attributes", tier, only=lambda inst: inst["identity"].startswith("unknown"))
    for q in ("calc_crc24q", "crc2bytes", "len2bytes"):  # "serialise back to the same frame": the framing helpers serialize() uses
        us += func_units("pyrtcm.rtcmhelpers." + q, tier)
    us += func_units(f"{M}.__init__", tier)  # a payload that carries a message number is never refused by the constructor's guard
    us.append(ground_unit("C15.table_lemmas", table_lemmas))
    # 'implemented types' / 'numbers without a payload definition': which numbers have a definition is the standard's (pinned) set
    from spec import tablecheck
    us.append(ground_unit("tables.identity_set", tablecheck.identity_set_lemmas))
    from pyvc import clientrun
    us.append(clientrun.unit("stub_serializes_to_same_frame", clientrun.lemma_parse_serialize))
    us.append(clientrun.unit("crc_split", clientrun.lemma_crc_split))
    us.append(clientrun.unit("df002_is_identity", clientrun.lemma_df002_is_identity))
    us += func_units(f"{M}._set_attribute_single", tier, only=lambda i: i["field"] in ("DF002", "IDF001", "IDF002"))
    return us


def replay(o, seed):
    return generic_replay(o, seed)
