"""C18 - MSM and harmonic-coefficient array helpers agree with the flat attributes."""
import random

from props.common import func_units, ground_unit, lemma_unit, try_candidates

LEVEL = "proof"
H = "pyrtcm.rtcmhelpers."
M = "pyrtcm.rtcmmessage.RTCMMessage"
TRUSTED = []
ASSUMPTIONS = ["the message handed to the helpers satisfies the class invariant exported by the constructor (its attribute set is the name "
               "set of R(definition): X_ii exists exactly for 1 <= i <= NSat / NCell for the leaves of the type's satellite / cell groups; "
               "IDF039_ll_kk / IDF040_ll_kk exist exactly up to the per-layer counts; IDF035 is a 2-bit field so there are 1..4 layers) - "
               "this is the conclusion of C03-L2/L3, assumed here as the helper's precondition",
               "hasattr/getattr on the message go through the same two-digit name format as the parser (checked: the helper's f-strings are "
               "executed symbolically and resolve to the (field, index) keys)"]
ARGUED = ["'one entry per satellite / cell, in index order, equal to the indexed attributes': post (list = SpecSeq(N)) + lemma "
          "specseq.entry_j_is_attribute_j_plus_1"]
EXPLANATION = ("parse_msm verified for each of the 49 MSM definitions of the real tables (loops over symbolic NSat / NCell cut at invariants: "
               "the list built so far is the prefix-indexed spec sequence of the indexed attributes) and for non-MSM / unknown / reserved "
               "identities (returns None, raises nothing); parse_4076_201 for 1..4 layers (complete: 2-bit field) with the probing while-loop "
               "cut at an invariant (any number of coefficients, incl. > 99); ground lemma: the helper's literal field lists cover every "
               "satellite / cell leaf of every MSM definition.")


def units(tier):
    from contracts import helpers_arrays as ha
    us = []
    us += func_units(H + "parse_msm", tier)
    us += func_units(H + "parse_4076_201", tier)
    us += func_units(M + ".ismsm", tier)
    us.append(lemma_unit("specseq.lemmas", ha.seq_lemmas))
    us.append(ground_unit("tables.helper_lists", ha.helper_list_lemma))
    # 'whose epoch is the constellation's epoch field': the helper takes the field name from GNSSMAP - pinned against the standard
    from spec import tablecheck
    us.append(ground_unit("tables.msm", tablecheck.msm_table_lemmas))
    return us


def candidates(seed):
    from spec import encoder, refdecode
    from contracts.message import all_headers
    rnd = random.Random(seed)
    for ident in list(refdecode.tables()[2]) + ["4076_201"] * 12:
        for pat in ("random", "zeros", "random"):
            p = encoder.complete_message(ident, rnd, pat)
            if p is not None:
                yield {"payload": p.hex()}
    # many coefficients: the extreme degree / order field values (up to 153 cosine and 136 sine coefficients in one layer)
    for dg, od in ((15, 15), (15, 10), (15, 11), (15, 0), (14, 14), (0, 0), (0, 3), (9, 9)):
        p = encoder.igs_201_single_layer(rnd, dg, od)
        if p is not None:
            yield {"payload": p.hex()}
    import itertools
    for hdr in all_headers():
        yield {"payload": (hdr + bytes(rnd.randrange(256) for _ in range(12))).hex()}


def replay(o, seed):
    if o["name"].startswith("tables.") and not o["name"].startswith("tables.helper_lists"):
        from props import C10
        return C10.replay(o, seed)
    if o["name"].startswith("tables."):
        return {"reproduced": True, "spec": "helper_lists", "input": {"obligation": o["name"]}, "expected": "helper lists cover the definition",
                "observed": o.get("model"), "key": o["name"]}
    return try_candidates("array_helpers", candidates(seed), key=lambda i, r: "array-helpers", limit=6000)
