"""C16 - The MSM label option changes signal labels only."""
import ast

from props.common import func_units, ground_unit
from props.replays import generic_replay
from spec import tablecheck

LEVEL = "proof"
M = "pyrtcm.rtcmmessage.RTCMMessage"
R = "pyrtcm.rtcmreader.RTCMReader"
TRUSTED = []
ASSUMPTIONS = ["option values: any int/bool; the code distinguishes only labelmsm == 2"]
ARGUED = ["two parses of the same payload with different options agree outside CELLSIG_*: the option is read at one site only (read-set "
          "obligation) whose effect is confined to the signal list (post of _getsatcellmaps: satellite map, domains, PRN half of each cell "
          "and all counts are stated without the option); non-MSM definitions contain no derived-label field (ground lemma)"]
EXPLANATION = ("read-set obligation: _labelmsm is read only in _getsatcellmaps and only to choose the tuple slot of the signal label; "
               "_getsatcellmaps' contract has the option as a parameter of the signal-label fold alone; parse/_parse_rtcm3 pass the reader's "
               "option through unchanged.")


def readset():
    """Every read of the label option in rtcmmessage.py, with the shape it must have."""
    from pyvc import extract
    tree, src = extract.module_ast("pyrtcm.rtcmmessage")
    sites = []
    for cls in [n for n in tree.body if isinstance(n, ast.ClassDef)]:
        for fn in [n for n in cls.body if isinstance(n, ast.FunctionDef)]:
            for n in ast.walk(fn):
                if isinstance(n, ast.Attribute) and n.attr == "_labelmsm" and isinstance(n.ctx, ast.Load):
                    sites.append((fn.name, n.lineno))
                if isinstance(n, ast.Name) and n.id == "labelmsm" and isinstance(n.ctx, ast.Load) and fn.name != "__init__":
                    sites.append((fn.name, n.lineno))
                if isinstance(n, ast.Call) and isinstance(n.func, ast.Name) and n.func.id in ("getattr", "vars") and fn.name != "_getsatcellmaps":
                    for a in n.args[1:2]:
                        if isinstance(a, ast.Constant) and a.value == "_labelmsm":
                            sites.append((fn.name, n.lineno))
    only = all(f == "_getsatcellmaps" for f, _ in sites)
    out = [("readset.label_option_read_only_in_getsatcellmaps", only and len(sites) >= 1, {"read_sites": sites})]
    # in _getsatcellmaps: exactly one read, of the form  X = <c1> if self._labelmsm == 2 else <c2>, X used only as the test of the
    # conditional that picks sgc[1] / sgc[0]
    fi = extract.func(M + "._getsatcellmaps")
    reads = [n for n in ast.walk(fi.node) if isinstance(n, ast.Attribute) and n.attr == "_labelmsm"]
    # the single read sits in the TEST of a conditional (expression or statement).  Either that conditional picks the label slot
    # itself, or it only sets a flag  X = <const> / <const>  and every later use of X is again the test of a conditional.  (What
    # the selected branches do is the business of _getsatcellmaps' contract, verified with the option symbolic; this lemma only
    # keeps the option out of arithmetic, subscripts, calls and stores.)  Spelling - `a if t else b` or if/else - does not matter.
    conds = [n for n in ast.walk(fi.node) if isinstance(n, (ast.IfExp, ast.If))]

    def in_test(node):
        return [c for c in conds if any(x is node for x in ast.walk(c.test))]

    def flag_of(c):
        """name assigned a constant on both arms of conditional c, or None"""
        if isinstance(c, ast.IfExp):
            par = [st for st in ast.walk(fi.node) if isinstance(st, ast.Assign) and st.value is c]
            if par and len(par[0].targets) == 1 and isinstance(par[0].targets[0], ast.Name) and all(isinstance(x, ast.Constant) for x in (c.body, c.orelse)):
                return par[0].targets[0].id
            return None
        arms = [c.body, c.orelse]
        names = set()
        for arm in arms:
            if len(arm) != 1 or not isinstance(arm[0], ast.Assign) or len(arm[0].targets) != 1 or not isinstance(arm[0].targets[0], ast.Name) \
                    or not isinstance(arm[0].value, ast.Constant):
                return None
            names.add(arm[0].targets[0].id)
        return names.pop() if len(names) == 1 else None

    ok = len(reads) == 1 and len(in_test(reads[0])) >= 1
    uses = 0
    if ok:
        var = flag_of(in_test(reads[0])[-1])
        if var is not None:
            loads = [n for n in ast.walk(fi.node) if isinstance(n, ast.Name) and n.id == var and isinstance(n.ctx, ast.Load)]
            uses = len(loads)
            ok = uses >= 1 and all(in_test(n) for n in loads)
    out.append(("readset.label_option_only_selects_the_signal_label_slot", ok, {"reads": len(reads), "uses_of_flag": uses}))
    return out


def units(tier):
    us = [ground_unit("C16.readset", readset), ground_unit("tables.msm", tablecheck.msm_table_lemmas)]
    us += func_units(M + "._getsatcellmaps", tier)
    us += func_units(M + ".__init__", tier)
    us += func_units(R + ".parse", tier)
    us += func_units(R + "._parse_rtcm3", tier)
    us += func_units(R + ".__init__", tier)  # the reader stores each option in its own slot: the label option selects labels, nothing else
    from spec import api
    from props.common import ground_unit as _gu
    us.append(_gu("api.signatures", api.signature_lemmas(['pyrtcm.rtcmreader.RTCMReader.parse', 'pyrtcm.rtcmmessage.RTCMMessage.__init__', 'pyrtcm.rtcmreader.RTCMReader.__init__'])))
    return us


def replay(o, seed):
    from props.common import try_candidates
    from props.replays import message_candidates
    if o["name"].startswith("tables."):
        from props import C10
        return C10.replay(o, seed)
    if "rtcmreader" in (o.get("unit") or o["name"]):
        return generic_replay(o, seed)
    return try_candidates("label_option", message_candidates(o, seed), key=lambda i, r: "label-option")
