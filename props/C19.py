"""C19 - Attribute-name helpers handle every name the parser generates."""
import itertools

from props.common import func_units, ground_unit, try_candidates
from spec import tablecheck

LEVEL = "proof"
H = "pyrtcm.rtcmhelpers."
TRUSTED = []
ASSUMPTIONS = ["f'{i:02d}' pieces are runs of >= 2 decimal digits without '_', and int() inverts them (ground-checked 0..4095); "
               "str.split / rsplit / membership are computed exactly on (literal, formatted-number) segment lists - no string solver"]
ARGUED = ["the set of producible names is derived from the real tables on every run: one (base, depth) per leaf occurrence; STR "
          "fields are never indexed; the name generation itself is the leaf contract of C03 (attribute_named_with_two_digit_indices)"]
EXPLANATION = ("att2idx, att2name and datadesc are symbolically executed on base + '_%02d' per nesting level with symbolic indices >= 1 "
               "(so two- and three-digit indices alike) for every (field, depth) that occurs in the tables, including IGS IDF fields, "
               "derived PRN/cell labels and sub-numbered fields.")


def units(tier):
    us = []
    for q in ("att2idx", "att2name", "datadesc"):
        us += func_units(H + q, tier)
    us.append(ground_unit("tables.naming", tablecheck.naming_lemmas))
    # "every name the parser generates": the names are the leaf's (base name + one two-digit index per enclosing group, in
    # nesting order) and the walk's (index level pushed and popped around every group, also an empty one)
    Mq = "pyrtcm.rtcmmessage.RTCMMessage"
    us += func_units(Mq + "._set_attribute_single", tier)
    for q in ("_set_attribute", "_set_attribute_group", "_set_attribute_optional"):
        us += func_units(f"{Mq}.{q}", tier)
    return us


def replay(o, seed):
    if "rtcmmessage" in (o.get("unit") or o["name"]):
        from props.replays import generic_replay
        return generic_replay(o, seed)

    def cands():
        for base, depth in sorted(tablecheck.producible_names()):
            for idx in itertools.product((1, 7, 10, 99, 100, 123), repeat=depth):
                yield {"base": base, "idx": list(idx)}
    return try_candidates("name_helpers", cands(), key=lambda i, r: "name-helpers", limit=20000)
