"""C14 - Parsed messages are immutable."""
import ast

from props.common import func_units, ground_unit
from props.replays import generic_replay

LEVEL = "proof"
M = "pyrtcm.rtcmmessage.RTCMMessage"
TRUSTED = []
ASSUMPTIONS = ["object.__setattr__ (reached through super()) is a plain store", "bytes objects are immutable (payload getter returns the stored object); the payload is a bytes object when the caller's stream / buffer "
               "yields bytes (stream contract) - SocketWrapper.read, _read_bytes, _parse_rtcm3 and parse are proved to pass on bytes, not a bytearray"]
ARGUED = ["after construction every attempted assignment raises and writes nothing (__setattr__.exc.* with _immutable = True, "
          "established by __init__.post.immutable_flag_set on every normal path incl. unknown types); identity/str/serialize are "
          "functions of the unchanged state (frame obligations)"]
EXPLANATION = "__setattr__ contract for every kind of name; __init__ sets the flag on all normal paths; public members write nothing."


def frame_scan():
    """Syntactic frame check of the members usable after construction: no attribute / item
    store and no mutating call on self."""
    from pyvc import extract
    out = []
    for name in ("identity", "payload", "ismsm", "serialize", "__str__", "__repr__"):
        fi = extract.func(f"{M}.{name}")
        bad = []
        for n in ast.walk(fi.node):
            if isinstance(n, (ast.Assign, ast.AugAssign, ast.AnnAssign)):
                tg = n.targets if isinstance(n, ast.Assign) else [n.target]
                for t in tg:
                    for sub in ast.walk(t):
                        if isinstance(sub, (ast.Attribute, ast.Subscript)):
                            bad.append(f"line {n.lineno}: store to {ast.unparse(sub)}")
            if isinstance(n, ast.Call) and isinstance(n.func, ast.Name) and n.func.id in ("setattr", "delattr"):
                bad.append(f"line {n.lineno}: {n.func.id}()")
            if isinstance(n, ast.Call) and isinstance(n.func, ast.Attribute) and n.func.attr in (
                    "append", "pop", "update", "clear", "extend", "insert", "remove", "setdefault", "__setattr__", "popitem"):
                bad.append(f"line {n.lineno}: .{n.func.attr}()")
            if isinstance(n, (ast.Delete, ast.Global, ast.Nonlocal)):
                bad.append(f"line {n.lineno}: {type(n).__name__}")
        out.append((f"frame.{name}.writes_nothing", not bad, {"writes": bad}))
    return out


def units(tier):
    us = []
    for q in ("__setattr__", "__init__", "payload", "serialize", "__repr__", "identity"):
        us += func_units(f"{M}.{q}", tier)
    us += func_units(f"{M}._do_attributes", tier, only=lambda inst: inst["identity"].startswith("unknown"))
    # the payload object itself cannot be changed in place: the reading layer hands the constructor a bytes object, never the
    # socket wrapper's bytearray buffer or a slice of it
    Rq = "pyrtcm.rtcmreader.RTCMReader"
    for q in ("_read_bytes", "_parse_rtcm3", "parse"):
        us += func_units(f"{Rq}.{q}", tier)
    us += func_units("pyrtcm.socketwrapper.SocketWrapper.read", tier)
    us.append(ground_unit("C14.frame_scan", frame_scan))
    from pyvc import clientrun
    us.append(clientrun.unit("assignments_leave_message_unchanged", clientrun.lemma_assignments))
    return us


def replay(o, seed):
    r = generic_replay(o, seed)
    if r and r.get("reproduced"):
        return r
    from props.common import try_candidates
    from spec import streams, encoder
    import random
    rnd = random.Random(seed)
    cands = [{"payload": streams.good_payloads(rnd).hex()} for _ in range(40)]
    cands += [{"payload": p.hex()} for _, p in encoder.corpus(seed, per_type=1, patterns=("random",))]
    return try_candidates("immutable", iter(cands), key=lambda i, r: "immutable")
