"""C08 - CRC-24Q is computed correctly and all guaranteed-detectable damage is rejected."""
from props.common import func_units, ground_unit, lemma_unit, try_candidates, byte_strings
from spec import crc_lemmas

LEVEL = "proof"
FUNCTIONS = ["pyrtcm.rtcmhelpers.calc_crc24q", "pyrtcm.rtcmhelpers.crc2bytes", "pyrtcm.rtcmreader.RTCMReader.parse"]
TRUSTED = []
ASSUMPTIONS = [
    "sequence induction (base + step obligations are discharged; the induction principle itself is the meta-rule)",
    "composition of the detection lemmas into 'every 1-bit, 2-bit, odd-weight and burst<=24 error changes the remainder' "
    "is argued from the discharged lemmas (linearity + zero prefix + burst/parity/two-bit + zero suffix), DESIGN C08",
]
ARGUED = ["detection classes follow from: linearity (CRC(f xor e) = CRC(f) xor CRC(e)), zero_from_zero, "
          "burst_le_24_detected, nonzero_survives_zero_byte, parity induction, two_bit ground lemma"]
EXPLANATION = ("calc_crc24q is proved equal to the polynomial-division spec for every byte string (loop invariant, "
               "unbounded length); detection lemmas are proved on the spec step; parse's use of the CRC is a contract "
               "obligation on the real parse().")


def units(tier):
    us = []
    us += func_units("pyrtcm.rtcmhelpers.calc_crc24q", tier)
    us += func_units("pyrtcm.rtcmhelpers.crc2bytes", tier)
    try:
        us += func_units("pyrtcm.rtcmreader.RTCMReader.parse", tier)
    except KeyError:
        pass
    us.append(lemma_unit("crc.step_lemmas", crc_lemmas.step_lemmas))
    us.append(lemma_unit("crc.induction_lemmas", crc_lemmas.induction_lemmas))
    us.append(ground_unit("crc.ground_lemmas", crc_lemmas.ground_lemmas))
    from pyvc import clientrun
    us.append(clientrun.unit("parse_ignores_checksum_when_not_validating", clientrun.lemma_validate_off))
    from spec import api
    from props.common import ground_unit as _gu
    us.append(_gu("api.signatures", api.signature_lemmas(['pyrtcm.rtcmreader.RTCMReader.parse', 'pyrtcm.rtcmhelpers.calc_crc24q', 'pyrtcm.rtcmmessage.RTCMMessage.__init__'])))
    return us


def replay(o, seed):
    name = o["name"]
    if "calc_crc24q" in name:
        return try_candidates("calc_crc24q", ({"message": m.hex()} for m in byte_strings(seed)),
                              key=lambda i, r: "calc_crc24q")
    if "crc2bytes" in name:
        return try_candidates("crc2bytes", ({"message": m.hex()} for m in byte_strings(seed)),
                              key=lambda i, r: "crc2bytes")
    from props.replays import generic_replay
    return generic_replay(o, seed)
