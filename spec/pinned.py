"""Pinned external data (DESIGN 3.3): what RTCM 10403.3 (+ amendments) and IGS SSR v1.00
say, transcribed by the author of this framework from the standards' tables - NOT read from
the tree.  Entries marked TREE could not be sourced independently in this sealed sandbox and
were recorded from the tree when the framework was built (they still detect later edits).

LENGTHS[identity] = (header_bits, [(count_name, block_bits, [(inner_count, inner_bits)])])
"""

STD = "RTCM 10403.3 / IGS SSR v1.00 (author's transcription)"
TREE = "tree@framework-build-time (no independent source available offline)"

# ---- message lengths ------------------------------------------------------------------
LENGTHS = {
    # GPS / GLONASS RTK observables
    "1001": (64, [("DF006", 58, [])], STD), "1002": (64, [("DF006", 74, [])], STD),
    "1003": (64, [("DF006", 101, [])], STD), "1004": (64, [("DF006", 125, [])], STD),
    "1009": (61, [("DF035", 64, [])], STD), "1010": (61, [("DF035", 79, [])], STD),
    "1011": (61, [("DF035", 107, [])], STD), "1012": (61, [("DF035", 130, [])], STD),
    # station / antenna
    "1005": (152, [], STD), "1006": (168, [], STD),
    "1007": (40, [("DF029", 8, [])], STD), "1008": (48, [("DF029", 8, []), ("DF032", 8, [])], STD),
    "1033": (72, [("DF029", 8, []), ("DF032", 8, []), ("DF227", 8, []), ("DF229", 8, []), ("DF231", 8, [])], STD),
    "1013": (70, [("DF053", 29, [])], STD),
    "1029": (72, [("DF139", 8, [])], STD),
    # ephemerides
    "1019": (488, [], STD), "1020": (360, [], STD), "1041": (482, [], STD), "1042": (511, [], STD),
    "1044": (485, [], STD), "1045": (496, [], STD), "1046": (504, [], STD),
    # SSR GPS / GLONASS
    "1057": (68, [("DF387", 135, [])], STD), "1058": (67, [("DF387", 76, [])], STD),
    "1059": (67, [("DF387", 11, [("DF379+1", 19)])], STD), "1060": (68, [("DF387", 205, [])], STD),
    "1061": (67, [("DF387", 12, [])], STD), "1062": (67, [("DF387", 28, [])], STD),
    "1063": (65, [("DF387", 134, [])], STD), "1064": (64, [("DF387", 75, [])], STD),
    "1065": (64, [("DF387", 10, [("DF379+1", 19)])], STD), "1066": (65, [("DF387", 204, [])], STD),
    "1067": (64, [("DF387", 11, [])], STD), "1068": (64, [("DF387", 27, [])], STD),
    # GLONASS code-phase biases: 32 bits + 16 per signal flagged in the 4-bit mask
    "1230": (32, [("if DF422_1", 16, []), ("if DF422_2", 16, []), ("if DF422_3", 16, []), ("if DF422_4", 16, [])], STD),
    # not independently sourced
    "1014": (117, [], TREE), "1015": (76, [("DF067", 28, [])], TREE), "1016": (76, [("DF067", 36, [])], TREE),
    "1017": (76, [("DF067", 53, [])], TREE),
    "1021": (412, [("DF143", 8, []), ("DF145", 8, [])], TREE), "1022": (517, [("DF143", 8, []), ("DF145", 8, [])], TREE),
    "1023": (146, [("16", 27, [])], TREE), "1024": (158, [("16", 27, [])], TREE),
    "1025": (196, [], TREE), "1026": (234, [], TREE), "1027": (258, [], TREE),
    "1030": (56, [("DF006", 49, [])], TREE), "1031": (53, [("DF035", 49, [])], TREE), "1032": (156, [], TREE),
    "1034": (49, [("DF006", 66, [])], TREE), "1035": (46, [("DF035", 66, [])], TREE),
    "1037": (73, [("DF234", 28, [])], TREE), "1038": (73, [("DF234", 36, [])], TREE), "1039": (73, [("DF234", 53, [])], TREE),
    "1300": (33, [("DF562", 8, [])], TREE), "1301": (362, [("DF143", 8, []), ("DF145", 8, [])], TREE),
    "1302": (26, [("DF565", 8, []), ("DF568", 5, [("DF569+1", 8)])], TREE),
    "1303": (56, [("DF572", 49, [])], TREE), "1304": (56, [("DF574", 49, [])], TREE), "1305": (56, [("DF576", 47, [])], TREE),
}
# IGS SSR 4076: header 72 bits + satellite count 6 (+1 CRS flag for orbit/combined, +2 consistency flags for phase bias)
for base in (20, 40, 60, 80, 100, 120):
    LENGTHS["4076_%03d" % (base + 1)] = (79, [("IDF010", 135, [])], STD)
    LENGTHS["4076_%03d" % (base + 2)] = (78, [("IDF010", 76, [])], STD)
    LENGTHS["4076_%03d" % (base + 3)] = (79, [("IDF010", 205, [])], STD)
    LENGTHS["4076_%03d" % (base + 4)] = (78, [("IDF010", 28, [])], STD)
    LENGTHS["4076_%03d" % (base + 5)] = (78, [("IDF010", 11, [("IDF023+1", 19)])], STD)
    LENGTHS["4076_%03d" % (base + 6)] = (80, [("IDF010", 28, [("IDF023+1", 32)])], STD)
    LENGTHS["4076_%03d" % (base + 7)] = (78, [("IDF010", 12, [])], STD)
LENGTHS["4076_201"] = (83, [("IDF035", 16, [("_NHarmCoeffC", 16), ("_NHarmCoeffS", 16)])], STD)

# MSM: header 169 bits + cell mask (NSat*NSig); per-satellite and per-cell bits by MSM level
MSM_HEADER = 169
MSM_SAT_BITS = {1: 10, 2: 10, 3: 10, 4: 18, 5: 36, 6: 18, 7: 36}
MSM_CELL_BITS = {1: 15, 2: 27, 3: 42, 4: 48, 5: 63, 6: 65, 7: 80}

# ---- MSM signal IDs -> (band, RINEX code), RTCM 10403.3 tables 3.5-91 ... 3.5-108 (+ BDS/QZSS amendments)
MSM_SIG = {
    "107": {2: ("L1", "1C"), 3: ("L1", "1P"), 4: ("L1", "1W"), 8: ("L2", "2C"), 9: ("L2", "2P"), 10: ("L2", "2W"),
            15: ("L2", "2S"), 16: ("L2", "2L"), 17: ("L2", "2X"), 22: ("L5", "5I"), 23: ("L5", "5Q"), 24: ("L5", "5X"),
            30: ("L1", "1S"), 31: ("L1", "1L"), 32: ("L1", "1X")},
    "108": {2: ("G1", "1C"), 3: ("G1", "1P"), 8: ("G2", "2C"), 9: ("G2", "2P")},
    "109": {2: ("E1", "1C"), 3: ("E1", "1A"), 4: ("E1", "1B"), 5: ("E1", "1X"), 6: ("E1", "1Z"),
            8: ("E6", "6C"), 9: ("E6", "6A"), 10: ("E6", "6B"), 11: ("E6", "6X"), 12: ("E6", "6Z"),
            14: ("E5B", "7I"), 15: ("E5B", "7Q"), 16: ("E5B", "7X"), 18: ("E5AB", "8I"), 19: ("E5AB", "8Q"), 20: ("E5AB", "8X"),
            22: ("E5A", "5I"), 23: ("E5A", "5Q"), 24: ("E5A", "5X")},
    "110": {2: ("L1", "1C"), 22: ("L5", "5I"), 23: ("L5", "5Q"), 24: ("L5", "5X")},
    "111": {2: ("L1", "1C"), 9: ("LEX", "6S"), 10: ("LEX", "6L"), 11: ("LEX", "6X"), 15: ("L2", "2S"), 16: ("L2", "2L"), 17: ("L2", "2X"),
            22: ("L5", "5I"), 23: ("L5", "5Q"), 24: ("L5", "5X"), 30: ("L1", "1S"), 31: ("L1", "1L"), 32: ("L1", "1X")},
    "112": {2: ("B1", "2I"), 3: ("B1", "2Q"), 4: ("B1", "2X"), 8: ("B3", "6I"), 9: ("B3", "6Q"), 10: ("B3", "6X"),
            14: ("B2", "7I"), 15: ("B2", "7Q"), 16: ("B2", "7X"), 22: ("B2A", "5D"), 23: ("B2A", "5P"), 24: ("B2A", "5X"),
            25: ("B2A", "7D"), 30: ("B1C", "1D"), 31: ("B1C", "1P"), 32: ("B1C", "1X")},
    "113": {22: ("L5", "5A")},
}
# ---- satellite mask position -> PRN label.  (first, last, offset): positions first..last map to "%03d" % (p + offset)
MSM_PRN = {
    "107": [(1, 63, 0)], "108": [(1, 24, 0)], "109": [(1, 50, 0)], "110": [(1, 39, 119)], "111": [(1, 10, 192)],
    "112": [(1, 63, 0)], "113": [(1, 14, 0)],
}
MSM_PRN_EXTRA = {"109": {51: "GIOVE-A", 52: "GIOVE-B"}}
MSM_EPOCH = {"107": "DF004", "108": "DF034", "109": "DF248", "110": "DF004", "111": "DF428", "112": "DF427", "113": "DF546"}


def prn_label(prefix, p):
    for a, b, off in MSM_PRN[prefix]:
        if a <= p <= b:
            return "%03d" % (p + off)
    return MSM_PRN_EXTRA.get(prefix, {}).get(p, "N/A")


# ---- sibling relations of property C10: (combined, first, second minus its satellite-ID field)
SSR_COMBINED = [("1060", "1057", "1058"), ("1066", "1063", "1064")] + \
    [("4076_%03d" % (b + 3), "4076_%03d" % (b + 1), "4076_%03d" % (b + 2)) for b in (20, 40, 60, 80, 100, 120)]
EXTENDED_CONTAINS_BASIC = [("1002", "1001"), ("1004", "1003"), ("1010", "1009"), ("1012", "1011"), ("1003", "1001"), ("1011", "1009")]
