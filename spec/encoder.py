"""Builds complete payloads for every defined message type (replay candidates / bounded
stand-ins): random or patterned bits are laid down, the *reference* interpreter reads them in
definition order, and the buffer is cut at the byte that holds the last field."""
import random

from spec import refdecode
from spec.ident import ident as spec_ident


def header(ident):
    if ident.startswith("4076_"):
        sub = int(ident[5:])
        return bytes([0xFE, 0xC0 | (sub >> 7), (sub & 0x7F) << 1])
    mid = int(ident)
    return bytes([mid >> 4, (mid & 0xF) << 4])


def all_identities():
    _, g, m, i, _ = refdecode.tables()
    return list(g) + list(m) + list(i)


def buffer_for(ident, rnd, pattern="random", n=1400):
    h = header(ident)
    if pattern == "zeros":
        body = bytearray(n)
    elif pattern == "ones":
        body = bytearray([255] * n)
    elif pattern == "alt":
        body = bytearray([0xAA if k % 2 else 0x55 for k in range(n)])
    else:
        body = bytearray(rnd.randrange(256) for _ in range(n))
    buf = bytearray(h) + body
    # keep the identity bits
    if len(h) == 2:
        buf[1] = (h[1] & 0xF0) | (buf[1] & 0x0F)
    else:
        buf[1] = h[1]
        buf[2] = (h[2] & 0xFE) | (buf[2] & 1)
    _, _, msm, _, _ = refdecode.tables()
    if ident in msm and pattern in ("random", "ones", "alt"):
        # sparse masks so that the message fits: sat mask bits 73..136, sig mask 137..168
        bits = list("".join(format(b, "08b") for b in buf))
        nsat, nsig = rnd.randrange(0, 7), rnd.randrange(0, 5)
        if rnd.random() < 0.15:  # cell masks wider than 64 bits
            nsat, nsig = rnd.randrange(9, 15), rnd.randrange(5, 8)
        sat = set(rnd.sample(range(64), nsat)) | ({63} if rnd.random() < 0.3 else set())
        sig = set(rnd.sample(range(32), nsig)) | ({0} if rnd.random() < 0.3 else set())
        for k in range(64):
            bits[73 + k] = "1" if k in sat else "0"
        for k in range(32):
            bits[137 + k] = "1" if k in sig else "0"
        s = "".join(bits)
        buf = bytearray(int(s[i:i + 8], 2) for i in range(0, len(s), 8))
    return bytes(buf)


def complete_message(ident, rnd, pattern="random"):
    """-> payload (bytes) that the reference interpreter decodes completely, or None."""
    for _ in range(6):
        buf = buffer_for(ident, rnd, pattern)
        r = refdecode.ref_decode(buf)
        if r[0] == "ok":
            nbytes = max((r[2] + 7) // 8, len(header(ident)))
            if nbytes <= 1023:
                return buf[:nbytes]
        if pattern != "random":
            pattern = "random"
    return None


def corpus(seed, per_type=2, patterns=("random", "zeros", "ones")):
    rnd = random.Random(seed)
    for ident in all_identities():
        for pat in patterns:
            for _ in range(per_type if pat == "random" else 1):
                p = complete_message(ident, rnd, pat)
                if p is not None:
                    yield ident, p
