"""Builds complete payloads for every defined message type (replay candidates / bounded
stand-ins): random or patterned bits are laid down, the *reference* interpreter reads them in
definition order, and the buffer is cut at the byte that holds the last field."""
import random

from spec import refdecode
from spec.ident import ident as spec_ident


def header(ident):
    if ident.startswith("4076_"):
        sub = int(ident[5:])
        return bytes([0xFE, 0xC0 | (sub >> 7), (sub & 0x7F) << 1])
    mid = int(ident)
    return bytes([mid >> 4, (mid & 0xF) << 4])


def all_identities():
    _, g, m, i, _ = refdecode.tables()
    return list(g) + list(m) + list(i)


def buffer_for(ident, rnd, pattern="random", n=1400):
    h = header(ident)
    if pattern == "zeros":
        body = bytearray(n)
    elif pattern == "ones":
        body = bytearray([255] * n)
    elif pattern == "alt":
        body = bytearray([0xAA if k % 2 else 0x55 for k in range(n)])
    else:
        body = bytearray(rnd.randrange(256) for _ in range(n))
    buf = bytearray(h) + body
    # keep the identity bits
    if len(h) == 2:
        buf[1] = (h[1] & 0xF0) | (buf[1] & 0x0F)
    else:
        buf[1] = h[1]
        buf[2] = (h[2] & 0xFE) | (buf[2] & 1)
    _, _, msm, _, _ = refdecode.tables()
    if ident in msm and pattern in ("random", "ones", "alt"):
        # sparse masks so that the message fits: sat mask bits 73..136, sig mask 137..168
        bits = list("".join(format(b, "08b") for b in buf))
        nsat, nsig = rnd.randrange(0, 7), rnd.randrange(0, 5)
        if rnd.random() < 0.15:  # cell masks wider than 64 bits
            nsat, nsig = rnd.randrange(9, 15), rnd.randrange(5, 8)
        sat = set(rnd.sample(range(64), nsat)) | ({63} if rnd.random() < 0.3 else set())
        sig = set(rnd.sample(range(32), nsig)) | ({0} if rnd.random() < 0.3 else set())
        # mostly signal IDs the constellation defines (NavIC / SBAS define very few: purely random masks label every cell 'N/A',
        # which looks the same under both label options)
        try:
            defined = sorted(q - 1 for q in refdecode.tables()[-1][ident[0:3]][1] if 1 <= q <= 32)
        except Exception:  # noqa
            defined = []
        if defined and rnd.random() < 0.7:
            sig = set(rnd.sample(defined, min(len(defined), max(1, nsig)))) | (set(rnd.sample(range(32), 1)) if rnd.random() < 0.3 else set())
        if defined and sig & set(defined) and not sat:
            sat = {rnd.randrange(64)}
        for k in range(64):
            bits[73 + k] = "1" if k in sat else "0"
        for k in range(32):
            bits[137 + k] = "1" if k in sig else "0"
        if defined and sig & set(defined) and sat:  # at least the cell (first satellite, first defined signal) is present
            first_defined = sorted(sig).index(min(sig & set(defined)))
            bits[169 + first_defined] = "1"
        s = "".join(bits)
        buf = bytearray(int(s[i:i + 8], 2) for i in range(0, len(s), 8))
    return bytes(buf)


def complete_message(ident, rnd, pattern="random"):
    """-> payload (bytes) that the reference interpreter decodes completely, or None."""
    for _ in range(6):
        buf = buffer_for(ident, rnd, pattern)
        r = refdecode.ref_decode(buf)
        if r[0] == "ok":
            nbytes = max((r[2] + 7) // 8, len(header(ident)))
            if nbytes <= 1023:
                return buf[:nbytes]
        if pattern != "random":
            pattern = "random"
    return None


def sign_only_variant(payload):
    """The same message with every signed field set to 'sign bit only' (two's complement: the most negative value; sign-magnitude:
    minus zero) - boundary values random data practically never contains.  Signed fields are never counts, masks or conditions,
    so the layout is unchanged.  None if the payload has no signed field."""
    lay = refdecode.field_layout(payload)
    if not lay:
        return None
    core = refdecode.tables()[0]
    bits = list("".join(format(b, "08b") for b in payload))
    hit = False
    for base, typ, off, width in lay:
        if typ in (core.INT, core.INTS) and width >= 2 and off + width <= len(bits):
            bits[off:off + width] = ["1"] + ["0"] * (width - 1)
            hit = True
    if not hit:
        return None
    s = "".join(bits)
    return bytes(int(s[i:i + 8], 2) for i in range(0, len(s), 8))


def igs_201_single_layer(rnd, degree_field, order_field):
    """A complete one-layer 4076_201 payload with the given 4-bit degree / order field values (degree = field + 1): the extreme
    shapes (degree 16, order >= 11 -> more than 136 cosine coefficients) that random field values rarely produce."""
    core, g, m, i, _ = refdecode.tables()
    d = i["4076_201"]
    DF = core.RTCM_DATA_FIELDS
    off = 0
    pos = {}
    for k, v in d.items():
        if isinstance(v, tuple):
            break
        pos[k] = (off, DF[k][1])
        off += DF[k][1]
    if "IDF035" not in pos:
        return None
    layer0 = off  # first layer: IDF036 (height), IDF037 (degree), IDF038 (order), then the coefficient groups
    grp = list(d.values())[-1][1] if isinstance(list(d.values())[-1], tuple) else None
    if not grp:
        return None
    lo = layer0
    lpos = {}
    for k, v in grp.items():
        if isinstance(v, tuple):
            break
        lpos[k] = (lo, DF[k][1])
        lo += DF[k][1]
    nbits = 8 * 1023
    bits = [rnd.getrandbits(1) for _ in range(nbits)]
    hdr = header("4076_201")
    for j in range(8 * len(hdr)):
        bits[j] = (hdr[j // 8] >> (7 - j % 8)) & 1

    def put(o, w, val):
        for j in range(w):
            bits[o + j] = (val >> (w - 1 - j)) & 1
    put(*pos["IDF035"], 0)
    if "IDF037" in lpos and "IDF038" in lpos:
        put(*lpos["IDF037"], degree_field)
        put(*lpos["IDF038"], order_field)
    buf = bytes(sum(bits[8 * k + j] << (7 - j) for j in range(8)) for k in range(nbits // 8))
    r = refdecode.ref_decode(buf)
    if r[0] != "ok":
        return None
    return buf[:max((r[2] + 7) // 8, len(hdr))]


def corpus(seed, per_type=2, patterns=("random", "zeros", "ones")):
    rnd = random.Random(seed)
    for ident in all_identities():
        for pat in patterns:
            for _ in range(per_type if pat == "random" else 1):
                p = complete_message(ident, rnd, pat)
                if p is not None:
                    yield ident, p
