"""Client programs: each is a tiny program over pyrtcm's public API whose assertion is one of the
property statements.  They are executed SYMBOLICALLY by the engine with every pyrtcm call
replaced by the callee's contract - i.e. each is a lemma over the contracts (modular
composition), not a test.  The `check_*` hooks are evaluated by props/clients glue on the final
symbolic state.
"""
# NOTE: executed by the engine, never imported by pyrtcm.  Names RTCMReader / RTCMMessage resolve
# through the client module namespace set up in pyvc/clientrun.py.


def roundtrip_serialize_parse(msg):
    """C07: parse(serialize(m)) has m's payload."""
    frame = msg.serialize()
    again = RTCMReader.parse(frame)  # noqa: F821
    return (frame, again)


def stub_serializes_to_same_frame(frame):
    """C15/C07: parse then serialize reproduces a valid frame byte for byte."""
    msg = RTCMReader.parse(frame)  # noqa: F821
    out = msg.serialize()
    return (msg, out)


def two_reads(reader):
    """C01: successive pairs come from non-overlapping slices in stream order."""
    a = reader.read()
    b = reader.read()
    return (a, b)


def assignments_leave_message_unchanged(msg, value):
    """C14: every attempted assignment raises the library's message error."""
    outcomes = []
    for name in ("DF002", "DF406_07", "_payload", "_immutable", "brand_new"):
        try:
            setattr(msg, name, value)
            outcomes.append("stored")
        except RTCMMessageError:  # noqa: F821
            outcomes.append("refused")
    return outcomes


def parse_ignores_checksum_when_not_validating(frame):
    """C08/C17: with validation off the checksum bytes do not influence the result."""
    return RTCMReader.parse(frame, validate=0)  # noqa: F821
