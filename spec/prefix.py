"""Prefix determinism of the layout interpreter R (DESIGN C06, truncation corollary).

Two runs over the same definition: run A on a payload of L bits, run B on a payload of L' <= L
bits that agrees with A's on its first L' bits.  Pre(SA, SB) relates their abstract message
states ("same attributes and maps; B's payload is a prefix of A's").

Leaf axioms (each a consequence of the L1 leaf contract - see `leaf_axiom_checks`, where they are
discharged on the leaf SPECIFICATION per data field):
  (LA)  Pre(SA,SB) and leafOk(SB,off,i)  =>  leafOk(SA,off,i) and Pre(leafS(SA,..), leafS(SB,..)) and equal offsets
  (GA)  Pre(SA,SB)  =>  every count / condition attribute is present in both or neither, with equal value
  (BA)  leafOk(S,off,i) => off <= leafOff(S,off,i) <= Len(S)  and  Len(leafS(S,..)) = Len(S)
Theorems, per concrete table node, by structural induction (children first) and Iter induction:
  (T1)  Pre(SA,SB) and ROk(node)(SB,off)  =>  ROk(node)(SA,off) and Pre(RS(SA), RS(SB)) and equal final offsets
  (T2)  ROk(node)(S,off) and off <= Len(S)  =>  off <= ROff <= Len(RS) = Len(S)
Corollary (linear): if the walk of a complete payload A ends at bit E and the payload is cut to
L' < E bits, the cut payload cannot parse: by T1 its final offset would be E, by T2 at most L'.
"""
import z3

from pyvc.state import Obligation
from spec import layout as ly

MS = ly.MsgState
PRE = z3.Function("PrefixRel", MS, MS, z3.BoolSort())
LEN = z3.Function("PayloadBits", MS, z3.IntSort())
I = z3.IntSort()


def leaf_LA(key, SA, SB, off, idx):
    ok, fs, fo = ly.leaf_funs(key, len(idx))
    a = [SA, off] + list(idx)
    b = [SB, off] + list(idx)
    return z3.Implies(z3.And(PRE(SA, SB), ok(*b)), z3.And(ok(*a), PRE(fs(*a), fs(*b)), fo(*a) == fo(*b)))


def leaf_BA(key, S, off, idx):
    ok, fs, fo = ly.leaf_funs(key, len(idx))
    a = [S, off] + list(idx)
    return z3.Implies(ok(*a), z3.And(fo(*a) >= off, fo(*a) <= LEN(S), LEN(fs(*a)) == LEN(S)))


def count_GA(cnt, SA, SB, idx):
    if isinstance(cnt, int):
        return z3.BoolVal(True)
    base, cidx = ly.count_name(cnt, idx)
    has, get = ly.attr_funs(base, len(cidx))
    return z3.Implies(PRE(SA, SB), z3.And(has(SA, *cidx) == has(SB, *cidx), get(SA, *cidx) == get(SB, *cidx)))


def T1(node_triple_A, node_triple_B, SA, SB):
    okA, sA, oA = node_triple_A
    okB, sB, oB = node_triple_B
    return z3.Implies(z3.And(PRE(SA, SB), okB), z3.And(okA, PRE(sA, sB), oA == oB))


def T2(triple, S, off):
    ok, s1, o1 = triple
    return z3.Implies(z3.And(ok, off <= LEN(S)), z3.And(o1 >= off, o1 <= LEN(S), LEN(s1) == LEN(S)))


def body_facts(gdict, chainA, chainB, idx, proved_groups):
    """Facts available for the children of a body, instantiated along the two state chains:
    leaf axioms for leaves, the already-established theorems for nested groups."""
    facts = []
    SA, oA = chainA
    SB, oB = chainB
    for key, adef in gdict.items():
        if isinstance(adef, tuple):
            trA = ly.R_item(key, adef, SA, oA, idx)
            trB = ly.R_item(key, adef, SB, oB, idx)
            trB_at_A_off = ly.R_item(key, adef, SB, oA, idx)
            # theorem instances for the nested node (discharged as that node's own obligations)
            facts.append(T1(trA, trB_at_A_off, SA, SB))
            facts.append(T2(trA, SA, oA))
            facts.append(T2(trB, SB, oB))
        else:
            trA = ly.R_item(key, adef, SA, oA, idx)
            trB = ly.R_item(key, adef, SB, oB, idx)
            facts.append(leaf_LA(key, SA, SB, oA, idx))
            facts.append(leaf_BA(key, SA, oA, idx))
            facts.append(leaf_BA(key, SB, oB, idx))
        SA, oA = trA[1], trA[2]
        SB, oB = trB[1], trB[2]
    return facts


def node_obligations(path, adef_or_dict, depth):
    """T1 and T2 for one concrete node (a definition dict = body, or a group / optional tuple)."""
    SA, SB = z3.Const("SA", MS), z3.Const("SB", MS)
    off = z3.Int("off")
    idx = [z3.Int(f"ix{j}") for j in range(depth)]
    out = []
    if isinstance(adef_or_dict, dict):
        d = adef_or_dict
        trA, trB = ly.R_body(d, SA, off, idx), ly.R_body(d, SB, off, idx)
        facts = body_facts(d, (SA, off), (SB, off), idx, None)
        out.append(Obligation(f"lemma.prefix.T1.body[{path}@{depth}]", facts, T1(trA, trB, SA, SB), kind="lemma"))
        out.append(Obligation(f"lemma.prefix.T2.body[{path}@{depth}]", facts, T2(trA, SA, off), kind="lemma"))
        return out
    cnt, gdict = adef_or_dict
    if isinstance(cnt, tuple):  # optional group
        trA, trB = ly.R_optional(adef_or_dict, SA, off, idx), ly.R_optional(adef_or_dict, SB, off, idx)
        bodyA, bodyB = ly.R_body(gdict, SA, off, idx), ly.R_body(gdict, SB, off, idx)
        has, get = ly.attr_funs(cnt[0], 0)
        facts = [T1(bodyA, bodyB, SA, SB), T2(bodyA, SA, off),
                 z3.Implies(PRE(SA, SB), z3.And(has(SA) == has(SB), get(SA) == get(SB)))]
        out.append(Obligation(f"lemma.prefix.T1.optional[{path}@{depth}]", facts, T1(trA, trB, SA, SB), kind="lemma"))
        out.append(Obligation(f"lemma.prefix.T2.optional[{path}@{depth}]", facts, T2(trA, SA, off), kind="lemma"))
        return out
    # repeating group: Iter induction
    k = z3.Int("k")
    iokA = lambda kk, S: [f(*([kk, S, off] + idx)) for f in ly.iter_funs(gdict, depth)]
    A0, B0 = iokA(k, SA), iokA(k, SB)
    A1, B1 = iokA(k + 1, SA), iokA(k + 1, SB)
    Pk = z3.Implies(B0[0], z3.And(A0[0], PRE(A0[1], B0[1]), A0[2] == B0[2]))
    Pk1 = z3.Implies(B1[0], z3.And(A1[0], PRE(A1[1], B1[1]), A1[2] == B1[2]))
    idx1 = idx + [k + 1]
    bodyA = ly.R_body(gdict, A0[1], A0[2], idx1)
    bodyB = ly.R_body(gdict, B0[1], B0[2], idx1)
    bodyB_atA = ly.R_body(gdict, B0[1], A0[2], idx1)
    facts = [k >= 0, PRE(SA, SB), ly.iter_unfold(gdict, k, SA, off, idx), ly.iter_unfold(gdict, k, SB, off, idx),
             T1(bodyA, bodyB_atA, A0[1], B0[1])]  # body theorem (this dict's own T1.body obligation), at the Iter(k) states
    out.append(Obligation(f"lemma.prefix.T1.iter_step[{path}@{depth}]", facts + [Pk], Pk1, kind="lemma"))
    base = [PRE(SA, SB), ly.iter_base(gdict, SA, off, idx), ly.iter_base(gdict, SB, off, idx)]
    Z = z3.IntVal(0)
    a0, b0 = iokA(Z, SA), iokA(Z, SB)
    out.append(Obligation(f"lemma.prefix.T1.iter_base[{path}@{depth}]", base, z3.Implies(b0[0], z3.And(a0[0], PRE(a0[1], b0[1]), a0[2] == b0[2])), kind="lemma"))
    # the group itself: count equal by (GA), then P(n)
    n = z3.Int("n")
    trA, trB = ly.R_group(adef_or_dict, SA, off, idx), ly.R_group(adef_or_dict, SB, off, idx)
    pa, na = ly.group_count(cnt, SA, idx)
    pb, nb = ly.group_count(cnt, SB, idx)
    kk = z3.If(nb >= 0, nb, z3.IntVal(0))
    An, Bn = iokA(kk, SA), iokA(kk, SB)
    Pn = z3.Implies(Bn[0], z3.And(An[0], PRE(An[1], Bn[1]), An[2] == Bn[2]))  # instance of the induction's conclusion at k = n
    out.append(Obligation(f"lemma.prefix.T1.group[{path}@{depth}]", [count_GA(cnt, SA, SB, idx), Pn], T1(trA, trB, SA, SB), kind="lemma"))
    # T2 for the group: offset stays within [off, Len] - Iter induction
    Q = lambda X: z3.Implies(z3.And(X[0], off <= LEN(SA)), z3.And(X[2] >= off, X[2] <= LEN(SA), LEN(X[1]) == LEN(SA)))
    out.append(Obligation(f"lemma.prefix.T2.iter_step[{path}@{depth}]",
                          [k >= 0, ly.iter_unfold(gdict, k, SA, off, idx), Q(A0), T2(bodyA, A0[1], A0[2])], Q(A1), kind="lemma"))
    out.append(Obligation(f"lemma.prefix.T2.iter_base[{path}@{depth}]", [ly.iter_base(gdict, SA, off, idx)], Q(a0), kind="lemma"))
    kA = z3.If(na >= 0, na, z3.IntVal(0))
    Ak = iokA(kA, SA)
    out.append(Obligation(f"lemma.prefix.T2.group[{path}@{depth}]", [Q(Ak)], T2(trA, SA, off), kind="lemma"))
    return out


def all_obligations(chunk=None, nchunks=1):
    from contracts.message_glue import all_dicts
    items = []
    for did, (d, depths, path) in sorted(all_dicts().items(), key=lambda kv: kv[1][2]):
        for depth in sorted(depths):
            items.append((path, d, depth))
            for k, v in d.items():
                if isinstance(v, tuple):
                    items.append((f"{path}/{k}", v, depth))
    if chunk is not None:
        items = items[chunk::nchunks]
    out = []
    for path, node, depth in items:
        out += node_obligations(path, node, depth)
    return out


def corollary():
    """The truncation corollary itself, from T1 and T2 at the top level (linear arithmetic)."""
    SA, SB = z3.Const("SA", MS), z3.Const("SB", MS)
    okA, okB = z3.Bools("walkA_ok walkB_ok")
    EA, EB, Lp = z3.Ints("E_A E_B Lprime")
    hyps = [okA, z3.Implies(z3.And(okB), EA == EB),     # T1 at the top: same final offset
            z3.Implies(okB, EB <= Lp),                     # T2 at the top for B: final offset within B's payload
            Lp < EA]                                       # the payload was cut inside the layout
    return [Obligation("lemma.prefix.truncation_corollary", hyps, z3.Not(okB), kind="lemma")]


# ---------------------------------------------------------------------------------------
def leaf_axiom_checks():
    """(LA)/(BA) discharged on the leaf SPECIFICATION of every plain data field: the spec's failure
    condition is  off + width > L  and its value is a function of bits [off, off+width) only, so a
    leaf that succeeds on the shorter payload succeeds on the longer one with the same value and offset.
    Derived fields (PRN/CELLPRN/CELLSIG, width 0) read only maps, which Pre equates; DF396 / IDF038
    additionally read attributes that Pre equates."""
    from pyvc import extract
    from contracts.message_leaf import spec_decode, spec_scaled
    C = extract.module("pyrtcm.rtcmtypes_core")
    bitA = z3.Function("bitA", I, z3.BoolSort())
    bitB = z3.Function("bitB", I, z3.BoolSort())
    off, L, Lp, q = z3.Ints("off L Lp q")
    out = []
    seen = set()
    for name, (typ, width, res, _) in C.RTCM_DATA_FIELDS.items():
        if typ in ("PRN", "CPR", "CSG") or name == "DF396":
            continue
        sig = (typ, width, repr(res))
        if sig in seen:
            continue
        seen.add(sig)
        agree = [bitA(off + j) == bitB(off + j) for j in range(width)]  # instances of "agree below L'" at the field's bits
        hyps = [off >= 0, Lp <= L, off + width <= Lp] + agree
        ua = [bitA(off + (width - 1 - j)) for j in range(width)]
        ub = [bitB(off + (width - 1 - j)) for j in range(width)]
        if typ == "STR":
            from pyvc.values import bits_to_int
            va, vb = bits_to_int(ua), bits_to_int(ub)
        else:
            va, vb = spec_decode(typ, width, ua)[1], spec_decode(typ, width, ub)[1]
        goal = z3.And(off + width <= L, va == vb)
        out.append(Obligation(f"lemma.prefix.leaf_spec_is_prefix_deterministic[{typ},{width}]", hyps, goal, kind="lemma"))
    return out
