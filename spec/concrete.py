"""Concrete oracles: run the real function from $VERIF_REPO/src and evaluate the same
postcondition on Python values.  Each check takes a JSON-able input and returns
{"fails": bool, "expected": .., "observed": ..}.  Used to replay counter-models (DESIGN 2.2)
and by the bounded stand-ins (DESIGN 2.5)."""
import importlib
import logging
import traceback

logging.disable(logging.CRITICAL)  # the reader logs every skipped frame in log mode

CHECKS = {}


def check(fn):
    CHECKS[fn.__name__] = fn
    return fn


def outcome(f, *a, **k):
    try:
        return ("ok", f(*a, **k))
    except BaseException as e:  # noqa
        return ("raise", type(e).__name__, str(e)[:200])


@check
def calc_crc24q(inp):
    from pyrtcm.rtcmhelpers import calc_crc24q as real
    from spec.crc import crc_bytes
    m = bytes.fromhex(inp["message"])
    exp = ("ok", crc_bytes(m))
    obs = outcome(real, m)
    return {"fails": exp != obs, "expected": exp, "observed": obs}


@check
def crc2bytes(inp):
    from pyrtcm.rtcmhelpers import crc2bytes as real
    from spec.crc import crc_bytes
    m = bytes.fromhex(inp["message"])
    exp = ("ok", crc_bytes(m).to_bytes(3, "big").hex())
    obs = outcome(real, m)
    if obs[0] == "ok":
        obs = ("ok", obs[1].hex() if isinstance(obs[1], (bytes, bytearray)) else repr(obs[1]))
    return {"fails": exp != obs, "expected": exp, "observed": obs}


@check
def len2bytes(inp):
    from pyrtcm.rtcmhelpers import len2bytes as real
    n = inp["length"]
    m = bytes(n)
    exp = ("ok", bytes([n // 256, n % 256]).hex()) if n < 65536 else ("raise", "OverflowError")
    obs = outcome(real, m)
    if obs[0] == "ok":
        obs = ("ok", obs[1].hex())
    else:
        obs = obs[:2]
    return {"fails": exp != obs, "expected": exp, "observed": obs}


# ---------------------------------------------------------------------------------------
# messages
# ---------------------------------------------------------------------------------------
LIBS = ("RTCMMessageError", "RTCMParseError", "RTCMStreamError", "RTCMTypeError")


@check
def message_decode(inp):
    """RTCMMessage(payload, labelmsm) against the reference layout interpreter (C03/C04/C06/C09/C15)."""
    from spec import refdecode
    p = bytes.fromhex(inp["payload"])
    lm = inp.get("labelmsm", 1)
    if len(p) < 2 or (len(p) < 3 and p[0] == 0xFE and p[1] >> 4 == 0xC):
        obs = refdecode.real_decode(p, lm)
        return {"fails": obs[0] != "error", "expected": ("error", "RTCMMessageError (payload shorter than its identity)"), "observed": obs[:2]}
    ok, exp, obs = refdecode.compare(p, lm)
    return {"fails": not ok, "expected": exp, "observed": obs}


@check
def identity(inp):
    from pyrtcm import RTCMMessage
    from spec.ident import ident
    p = bytes.fromhex(inp["payload"])
    try:
        exp = ("ok", ident(p))
    except IndexError:
        exp = ("raise", "RTCMMessageError")
    try:
        m = RTCMMessage(payload=p)
        obs = ("ok", m.identity)
        if exp[0] == "ok":
            from spec import refdecode
            if refdecode.lookup_definition(exp[1]) is not None and str(getattr(m, "DF002", None)) != exp[1].split("_")[0]:
                obs = ("ok", f"{m.identity} but DF002={getattr(m, 'DF002', None)}")
    except BaseException as e:  # noqa
        obs = ("raise", type(e).__name__)
        if obs[1] == "RTCMTypeError" and exp[0] == "ok":
            from spec import refdecode
            if refdecode.lookup_definition(exp[1]) is not None:
                obs = exp  # a defined type whose body does not fit: not an identity question
    return {"fails": exp != obs, "expected": exp, "observed": obs}


@check
def ismsm(inp):
    from pyrtcm import RTCMMessage
    from pyrtcm.rtcmtypes_get_msm import RTCM_PAYLOADS_GET_MSM
    from spec.ident import ident
    p = bytes.fromhex(inp["payload"])
    idt = ident(p)
    m = None
    try:
        m = RTCMMessage(payload=p)
    except BaseException as e:  # noqa
        return {"fails": False, "expected": None, "observed": f"constructor raised {type(e).__name__}"}
    obs = outcome(lambda: m.ismsm)
    inblock = idt.isdigit() and 1070 <= int(idt) <= 1229
    bad = obs[0] != "ok" or (idt in RTCM_PAYLOADS_GET_MSM and obs[1] is not True) or (not inblock and obs[1] is not False)
    return {"fails": bad, "expected": ("ok", "True for implemented MSM, False outside 1070-1229"), "observed": obs}


@check
def serialize(inp):
    from pyrtcm import RTCMMessage, RTCMReader
    from spec.crc import crc_bytes
    p = bytes.fromhex(inp["payload"])
    try:
        m = RTCMMessage(payload=p, labelmsm=inp.get("labelmsm", 1))
    except BaseException as e:  # noqa
        return {"fails": False, "expected": None, "observed": f"constructor raised {type(e).__name__}"}
    head = b"\xd3" + bytes([len(p) // 256, len(p) % 256]) + p
    exp = ("ok", (head + crc_bytes(head).to_bytes(3, "big")).hex())
    obs = outcome(m.serialize)
    if obs[0] == "ok":
        obs = ("ok", obs[1].hex())
    if exp == obs:
        # round trips
        m2 = outcome(RTCMReader.parse, bytes.fromhex(obs[1]), labelmsm=inp.get("labelmsm", 1))
        if m2[0] != "ok" or m2[1].payload != p or m2[1].identity != m.identity or m2[1].__dict__ != m.__dict__:
            obs = ("ok", "parse(serialize(m)) differs from m")
        else:
            r = outcome(lambda: eval(repr(m), {"RTCMMessage": RTCMMessage}).payload)  # noqa: eval of repr is what the property states
            if r != ("ok", p):
                obs = ("ok", f"eval(repr(m)).payload -> {r}")
    return {"fails": exp != obs, "expected": exp, "observed": obs}


@check
def immutable(inp):
    from pyrtcm import RTCMMessage
    from pyrtcm.exceptions import RTCMMessageError
    p = bytes.fromhex(inp["payload"])
    try:
        m = RTCMMessage(payload=p, labelmsm=inp["labelmsm"]) if "labelmsm" in inp else RTCMMessage(payload=p)
    except BaseException as e:  # noqa
        return {"fails": False, "expected": None, "observed": f"constructor raised {type(e).__name__}"}
    snap = (dict(m.__dict__), m.payload, m.identity, str(m), m.serialize())
    for bad in (b"\x00", None, p[:2] + b"\x00"):  # constructions that fail (or not) in between must not reopen an existing message
        try:
            RTCMMessage(payload=bad)
        except BaseException:  # noqa
            pass
    names = list(m.__dict__) + ["brand_new", "_x", "payload", "identity", "ismsm", "x{y}", "{", "}", "{0}", "%s", "a b"] + inp.get("names", [])
    class Unprintable:
        def __str__(self):
            raise ValueError("this object cannot be printed")
        __repr__ = __str__

    for nm in names:
        for val in (0, getattr(m, nm, None), "x", Unprintable()):
            try:
                setattr(m, nm, val)
                return {"fails": True, "expected": "RTCMMessageError", "observed": f"setattr({nm!r}, {val!r}) succeeded"}
            except RTCMMessageError:
                pass
            except BaseException as e:  # noqa
                return {"fails": True, "expected": "RTCMMessageError", "observed": f"setattr({nm!r}) raised {type(e).__name__}"}
    after = (dict(m.__dict__), m.payload, m.identity, str(m), m.serialize())
    return {"fails": snap != after, "expected": "unchanged", "observed": "changed" if snap != after else "unchanged"}


@check
def parse_static(inp):
    """RTCMReader.parse(message, validate, labelmsm) (C04, C07, C08, C17)."""
    from pyrtcm import RTCMReader
    from spec import refdecode
    from spec.crc import crc_bytes
    msg = bytes.fromhex(inp["message"])
    validate, lm = inp.get("validate", 1), inp.get("labelmsm", 1)
    try:
        r = RTCMReader.parse(msg, validate=validate, labelmsm=lm)
        obs = ("ok", r.payload.hex(), {k: v for k, v in r.__dict__.items() if not k.startswith("_")})
        # the result is a function of the payload (and label option) alone: its serialised form is the canonical frame of that
        # payload whatever checksum bytes the parsed buffer carried (C08 validation off, C07, C17)
        from spec.streams import frame as _frame
        try:
            ser = r.serialize()
        except BaseException as e:  # noqa
            ser = type(e).__name__
        if ser != _frame(r.payload):
            return {"fails": True, "expected": ("serialize() of the result is the canonical frame of its payload", _frame(r.payload).hex()[-12:]),
                    "observed": ("serialize()", ser.hex()[-12:] if isinstance(ser, bytes) else ser)}
    except BaseException as e:  # noqa
        obs = ("raise", type(e).__name__)
    if validate & 1 and crc_bytes(msg) != 0:
        exp = ("raise", "RTCMParseError")
        return {"fails": obs != exp, "expected": exp, "observed": obs[:2]}
    p = msg[3:-3]
    if len(p) < 2 or (len(p) < 3 and p[0] == 0xFE and p[1] >> 4 == 0xC):
        return {"fails": obs != ("raise", "RTCMMessageError"), "expected": ("raise", "RTCMMessageError"), "observed": obs[:2]}
    ref = refdecode.ref_decode(p, lm)
    if ref[0] == "error":
        bad = not (obs[0] == "raise" and obs[1] in ("RTCMTypeError", "RTCMMessageError"))
        return {"fails": bad, "expected": ("raise", "RTCMTypeError"), "observed": obs[:2]}
    bad = obs[0] != "ok" or obs[1] != p.hex() or obs[2] != ref[1]
    return {"fails": bad, "expected": ("ok", p.hex()[:40], len(ref[1])), "observed": (obs[0], str(obs[1])[:40], len(obs[2]) if obs[0] == "ok" else None)}


# ---------------------------------------------------------------------------------------
# reader
# ---------------------------------------------------------------------------------------
def _drive(data, cuts, validate, quitonerror, parsed, handler, labelmsm=1, maxsteps=None, as_bytearray=False, stream_kind="plain"):
    from pyrtcm import RTCMReader
    from spec.streams import FaultyStream, SeekableStream, BadTellStream
    cls = {"plain": FaultyStream, "seekable": SeekableStream, "bad_tell": BadTellStream}[stream_kind]
    st = cls(data, cuts, as_bytearray=as_bytearray)
    calls = []

    class FalsyHandler(list):  # a callable collector that is empty, hence falsy, when the reader consults it
        def __call__(self, e):
            calls.append(type(e).__name__)
    h = None
    if handler == "falsy":
        h = FalsyHandler()
    elif handler == "returns_true":  # a handler that returns something truthy (a count, the error, True): still just a report
        h = lambda e: calls.append(type(e).__name__) or len(calls)  # noqa: E731
    elif handler:
        h = lambda e: calls.append(type(e).__name__)  # noqa: E731
    rd = RTCMReader(st, validate=validate, quitonerror=quitonerror, parsed=parsed, labelmsm=labelmsm, errorhandler=h)
    events = []
    maxsteps = maxsteps or (len(data) + 10)
    for _ in range(maxsteps):
        p_before = st.pos
        try:
            raw, msg = rd.read()
        except BaseException as e:  # noqa
            events.append(("raise", type(e).__name__, p_before, st.pos))
            if type(e).__name__ not in LIBS:
                break
            continue
        events.append(("ret", raw, msg, p_before, st.pos, st.last_empty))
        if raw is None:
            break
    else:
        events.append(("nonterminating",))
    return events, calls, st


@check
def reader_safety(inp):
    """C01 / C04 / C05-modes on one concrete stream with one fault schedule."""
    from spec.ident import ident
    from spec.streams import wf_frame
    data = bytes.fromhex(inp["data"])
    validate, q, parsed, handler = inp.get("validate", 1), inp.get("quitonerror", 1), inp.get("parsed", True), inp.get("handler", False)
    lm = inp.get("labelmsm", 1)
    events, calls, st = _drive(data, inp.get("cuts", []), validate, q, parsed, handler, labelmsm=lm, as_bytearray=inp.get("bytearray", False),
                               stream_kind=inp.get("stream_kind", "plain"))
    last_end = 0
    for ev in events:
        if ev[0] == "nonterminating":
            return {"fails": True, "expected": "iteration finishes", "observed": "no end of data after len+10 reads"}
        if ev[0] == "raise" and ev[1] == "ReadBudgetExceeded":
            return {"fails": True, "expected": "iteration over a finite stream finishes", "observed": "read() called without end on an exhausted stream"}
        if ev[0] == "raise":
            if ev[1] not in LIBS or q != 2:
                return {"fails": True, "expected": "no exception" if q != 2 else "library error", "observed": f"{ev[1]} (quitonerror={q})"}
            continue
        _, raw, msg, p0, p1, last_empty = ev
        if raw is None:
            if msg is not None or not last_empty:
                return {"fails": True, "expected": "(None, None) only after an empty read", "observed": f"msg={msg!r} last_empty={last_empty}"}
            continue
        s = p1 - len(raw)
        if s < last_end or data[s:p1] != raw:
            return {"fails": True, "expected": "contiguous in-order slice of the input", "observed": f"raw={raw.hex()[:40]} at {s}:{p1}, previous end {last_end}"}
        last_end = p1
        hdr_ok = len(raw) >= 6 and raw[0] == 0xD3 and raw[1] & 0xFC == 0 and ((raw[1] & 3) << 8 | raw[2]) == len(raw) - 6
        if not hdr_ok or (parsed and validate & 1 and not wf_frame(raw)):
            return {"fails": True, "expected": "well-formed frame", "observed": raw.hex()[:60]}
        if parsed:
            if msg is None or msg.payload != raw[3:-3] or msg.identity != ident(raw[3:-3]):
                return {"fails": True, "expected": "message carrying the slice's payload and number", "observed": repr(msg)[:80]}
            from spec import refdecode
            ref = refdecode.ref_decode(raw[3:-3], lm)
            got = {k: v for k, v in msg.__dict__.items() if not k.startswith("_")}
            if ref[0] != "ok" or ref[1] != got:
                return {"fails": True, "expected": f"attributes of the payload decoded with labelmsm={lm}",
                        "observed": str({k: (ref[1].get(k) if ref[0] == 'ok' else None, got.get(k)) for k in got if ref[0] != 'ok' or ref[1].get(k) != got.get(k)})[:300]}
        elif msg is not None:
            return {"fails": True, "expected": "no parsed object when parsed=False", "observed": repr(msg)[:80]}
    if q == 0 and calls:
        return {"fails": True, "expected": "handler never called in ignore mode", "observed": calls[:5]}
    if inp.get("no_rewind") and getattr(st, "rewound", 0):
        # C05 "a damaged frame costs exactly that frame", C17 "neither option changes how many bytes are taken for a frame"
        return {"fails": True, "expected": "every frame, good or damaged, takes its size + 6 bytes off the stream",
                "observed": f"the reader moved the stream cursor back by {st.rewound} byte(s) to re-scan consumed data"}
    return {"fails": False, "events": len(events)}


@check
def reader_complete(inp):
    """C02 / C05 / C17 on one well-formed item list (fault-free stream): the expectation is
    computed from the item list, not from the reader."""
    from spec import refdecode
    from spec.crc import crc_bytes
    items = [(k, bytes.fromhex(h)) for k, h in inp["items"]]
    validate, q, parsed, handler = inp.get("validate", 1), inp.get("quitonerror", 1), inp.get("parsed", True), inp.get("handler", True)
    lm = inp.get("labelmsm", 1)
    data = b"".join(b for _, b in items)
    exp = []  # ("ret", raw) | ("bad", end_pos)
    pos = 0
    for k, b in items:
        pos += len(b)
        if k not in ("rtcm", "filler", "damaged"):
            continue
        crc_ok = crc_bytes(b) == 0
        p = b[3:-3]
        short = len(p) < 2 or (len(p) < 3 and p[0] == 0xFE and p[1] >> 4 == 0xC)
        pok = (not short) and refdecode.ref_decode(p, lm)[0] == "ok"
        ret = (not parsed) or (((not validate & 1) or crc_ok) and pok)
        exp.append(("ret", b.hex()) if ret else ("bad", pos))
    events, calls, st = _drive(data, [], validate, q, parsed, handler, labelmsm=lm)
    obs = []
    for ev in events:
        if ev[0] == "raise":
            obs.append(("bad", ev[3]) if ev[1] in LIBS else ("foreign", ev[1]))
        elif ev[0] == "ret" and ev[1] is not None:
            obs.append(("ret", ev[1].hex()))
            if (ev[2] is None) != (not parsed):
                return {"fails": True, "expected": "parsed object iff parsing on", "observed": repr(ev[2])[:60]}
        elif ev[0] == "nonterminating":
            obs.append(("nonterminating",))
    nbad = sum(1 for e in exp if e[0] == "bad")
    if q == 2:
        want = exp
    else:
        want = [e for e in exp if e[0] == "ret"]
    want_calls = nbad if (q == 1 and handler) else 0
    fails = obs != want or len(calls) != want_calls or st.pos != len(data)
    short_ = lambda l: [(a, (b[:24] + ".." if isinstance(b, str) and len(b) > 26 else b)) for a, b, *_ in [x + (None,) for x in l]][:8]
    return {"fails": fails, "expected": {"events": short_(want), "handler_calls": want_calls, "consumed": len(data)},
            "observed": {"events": short_(obs), "handler_calls": len(calls), "consumed": st.pos}}


@check
def table_entry(inp):
    """Re-evaluates one closed table obligation on the current tree."""
    from spec import tablecheck as tc
    name = inp["obligation"]
    for fn in (tc.wf_lemmas, tc.length_lemmas, tc.sibling_lemmas, tc.msm_table_lemmas, tc.naming_lemmas, tc.field_entry_lemmas):
        for n, ok, d in fn():
            if n == name:
                return {"fails": not ok, "expected": "holds", "observed": d}
    return {"fails": False, "expected": None, "observed": "obligation no longer generated"}


@check
def truncation_rejected(inp):
    """C06: a complete message truncated by whole bytes must not construct."""
    from spec import refdecode
    p = bytes.fromhex(inp["payload"])
    obs = refdecode.real_decode(p)
    return {"fails": obs[0] == "ok", "expected": ("error", f"truncated to {len(p)} of {inp.get('full')} bytes"), "observed": (obs[0], str(obs[1])[:120])}


@check
def label_option(inp):
    """C16: the four option values agree on everything except CELLSIG_*, 0/1/True coincide, and a signal ID has one label."""
    from spec import refdecode
    p = bytes.fromhex(inp["payload"])
    res = {}
    for opt in (0, 1, 2, True):
        r = refdecode.real_decode(p, opt)
        res[repr(opt)] = r[:2]
    ref1, ref2 = refdecode.ref_decode(p, 1), refdecode.ref_decode(p, 2)
    kinds = {v[0] for v in res.values()}
    if kinds != {"ok"}:
        return {"fails": len(kinds) != 1 or "foreign" in kinds, "expected": "same outcome under every option", "observed": {k: v[0] for k, v in res.items()}}
    a, b = res["1"][1], res["2"][1]
    strip = lambda d: {k: v for k, v in d.items() if not k.startswith("CELLSIG_")}
    bad = strip(a) != strip(b) or res["0"][1] != a or res["True"][1] != a or a != ref1[1] or b != ref2[1]
    return {"fails": bad, "expected": "agreement outside CELLSIG_*, and with the reference decoder", "observed": "differs" if bad else "agrees"}


@check
def name_helpers(inp):
    """C19 on one producible attribute name."""
    from pyrtcm.rtcmhelpers import att2idx, att2name, datadesc
    from pyrtcm.rtcmtypes_core import RTCM_DATA_FIELDS
    base, idx = inp["base"], inp["idx"]
    name = base + "".join("_%02d" % i for i in idx)
    exp = {"datadesc": ("ok", RTCM_DATA_FIELDS[base][3])}
    obs = {"datadesc": outcome(datadesc, name)}
    if idx:
        exp["att2idx"] = ("ok", idx[0] if len(idx) == 1 else tuple(idx))
        exp["att2name"] = ("ok", base)
        obs["att2idx"] = outcome(att2idx, name)
        obs["att2name"] = outcome(att2name, name)
    bad = {k: (exp[k], obs[k][:2]) for k in exp if tuple(exp[k]) != tuple(obs[k][:2])}
    return {"fails": bool(bad), "expected": {k: v[0] for k, v in bad.items()}, "observed": {k: v[1] for k, v in bad.items()}, "name": name}


@check
def history_independence(inp):
    """C13: a sequence of parses (constructor and static parser, incl. failing ones); every result must equal the
    history-free reference decode, and the definition tables must be unchanged afterwards."""
    import copy
    from pyrtcm import RTCMReader
    from spec import refdecode
    from spec.streams import frame
    core, g, m, i, prnsig = refdecode.tables()
    snap = copy.deepcopy((g, m, i, core.RTCM_DATA_FIELDS, prnsig, core.RTCM_MSGIDS, core.GNSSMAP))
    for k, (phex, lm, via) in enumerate(inp["sequence"]):
        p = bytes.fromhex(phex)
        exp = refdecode.ref_decode(p, lm)
        if via == "parse":
            try:
                msg = RTCMReader.parse(frame(p), labelmsm=lm)
                obs = ("ok", {a: v for a, v in msg.__dict__.items() if not a.startswith("_")})
            except BaseException as e:  # noqa
                obs = ("error", type(e).__name__)
        else:
            obs = refdecode.real_decode(p, lm)[:2]
        short = len(p) < 2 or (len(p) < 3 and p[0] == 0xFE and p[1] >> 4 == 0xC)
        if short:
            exp = ("error", "too short")
        if exp[0] != obs[0] or (exp[0] == "ok" and exp[1] != obs[1]):
            diff = None
            if exp[0] == obs[0] == "ok":
                diff = {a: (exp[1].get(a), obs[1].get(a)) for a in set(exp[1]) | set(obs[1]) if exp[1].get(a) != obs[1].get(a)}
                diff = dict(sorted(diff.items())[:4])
            return {"fails": True, "expected": f"step {k}: same result as parsing these bytes alone ({exp[0]})", "observed": diff or obs[:2]}
    after = (g, m, i, core.RTCM_DATA_FIELDS, prnsig, core.RTCM_MSGIDS, core.GNSSMAP)
    if snap != after:
        return {"fails": True, "expected": "definition and lookup tables unchanged", "observed": "tables modified"}
    return {"fails": False, "steps": len(inp["sequence"])}


@check
def frame_scan(inp):
    from props import C13
    for n, ok, d in C13.scan():
        if n == inp["obligation"]:
            return {"fails": not ok, "expected": "holds", "observed": d}
    return {"fails": False, "observed": "obligation no longer generated"}


# ---------------------------------------------------------------------------------------
# sockets
# ---------------------------------------------------------------------------------------
def make_socket(data, schedule):
    """A socket double: schedule is a list of ints (max bytes of that recv) or 'timeout' / 'oserror'; when the
    schedule is exhausted the rest arrives in one piece and then the peer closes."""
    import socket

    class FakeSocket(socket.socket):
        def __init__(self):  # noqa: no real socket is opened
            self.data, self.pos, self.sched, self.log = data, 0, list(schedule), []

        def recv(self, n):
            ev = self.sched.pop(0) if self.sched else None
            if ev == "timeout":
                self.log.append("timeout")
                raise TimeoutError("timed out")
            if ev == "oserror":
                self.log.append("oserror")
                raise OSError("reset")
            k = n if ev is None else max(1, min(n, ev))
            if self.pos >= len(self.data):
                self.closed_polls = getattr(self, "closed_polls", 0) + 1
                if self.closed_polls > 500:  # the peer has closed and the caller keeps asking: non-termination (C04)
                    from spec.streams import ReadBudgetExceeded
                    raise ReadBudgetExceeded(f"recv() called {self.closed_polls} times after the peer closed")
            d = self.data[self.pos:self.pos + k]
            self.pos += len(d)
            self.log.append(len(d))
            return d

        def __del__(self):
            pass

        def close(self):
            pass
    return FakeSocket()


@check
def socket_plain(inp):
    """C11: reads through SocketWrapper return the peer's bytes in order, all-or-nothing, short only after a failed receive."""
    from pyrtcm.socketwrapper import SocketWrapper
    try:
        return _socket_plain(inp)
    except Exception as e:  # noqa: receive errors are the wrapper's to absorb (a failed receive is reported as a short read)
        return {"fails": True, "expected": "no exception from read()/readline(): a failed receive is a short read",
                "observed": f"{type(e).__name__}: {e}"}


def _socket_plain(inp):
    from pyrtcm.socketwrapper import SocketWrapper
    data = bytes.fromhex(inp["data"])
    sock = make_socket(data, inp.get("schedule", []))
    w = SocketWrapper(sock, bufsize=inp.get("bufsize", 4096))
    got = b""
    for req in inp["reads"]:
        before = len(sock.log)
        if req == "line":
            r = w.readline()
            rest = data[len(got):]
            i = rest.find(b"\n")
            want = rest[:i + 1] if i >= 0 else None
            if data[len(got):len(got) + len(r)] != r or (want is not None and r != want and not (len(r) < len(want) and any(x in ("timeout", "oserror", 0) for x in sock.log[before:]))):
                return {"fails": True, "expected": f"line {want!r}", "observed": repr(r)}
        else:
            r = w.read(req)
            failed = any(x in ("timeout", "oserror", 0) for x in sock.log[before:])
            if data[len(got):len(got) + len(r)] != r or len(r) not in (0, req) or (len(r) < req and not failed):
                return {"fails": True, "expected": f"{req} bytes {data[len(got):len(got) + req].hex()} (or b'' after a failed receive)",
                        "observed": f"{r.hex()} recv log {sock.log[before:]}"}
        if type(r) is not bytes:
            return {"fails": True, "expected": "an immutable bytes object", "observed": f"{type(r).__name__} (the caller can change it in place)"}
        got += r
    # nothing lost: drain
    sock.sched = []
    while True:
        r = w.read(1)
        if not r:
            break
        got += r
    return {"fails": got != data, "expected": data.hex()[:80], "observed": got.hex()[:80]}


@check
def socket_reader(inp):
    """C11/C02: RTCMReader over a socket returns the same messages as over a file with the same bytes."""
    import io
    from pyrtcm import RTCMReader
    data = bytes.fromhex(inp["data"])
    a = [r[0] for r in RTCMReader(io.BytesIO(data), quitonerror=0)]
    b = [r[0] for r in RTCMReader(make_socket(data, inp.get("schedule", [])), quitonerror=0, bufsize=inp.get("bufsize", 4096))]
    return {"fails": a != b, "expected": [x.hex()[:20] for x in a][:6], "observed": [x.hex()[:20] for x in b][:6]}


@check
def announced_length(inp):
    """C06: a payload that is accepted is at least as long as the fields, repeat counts and masks it announces require -
    the requirement computed from the pinned (standard's) length formulas and the counters the message itself decoded."""
    from pyrtcm import RTCMMessage
    from spec import pinned
    p = bytes.fromhex(inp["payload"])
    try:
        m = RTCMMessage(payload=p, labelmsm=inp.get("labelmsm", 1))
    except BaseException as e:  # noqa
        return {"fails": False, "observed": f"constructor raised {type(e).__name__}"}
    ident = m.identity
    a = m.__dict__

    def count(name, idx):
        if name.startswith("if "):
            return 1 if a.get(name[3:]) else 0
        if name.isdigit():
            return int(name)
        if "+" in name:  # the tables' "DF379+1": the counter itself carries one outer group index (nothing is added to its value)
            name = name.split("+")[0]
        key = name + "".join("_%02d" % i for i in idx)
        if key not in a:
            raise KeyError(key)
        return a[key]
    try:
        if ident in pinned.LENGTHS:
            hb, groups, _ = pinned.LENGTHS[ident]
            if any(n.startswith("_") for _, _, inner in groups for n, _ in inner):
                return {"fails": False, "observed": "length depends on derived counts; not evaluated here"}
            need = hb
            for cname, bits, inner in groups:
                n = count(cname, ())
                need += n * bits
                for i in range(1, n + 1):
                    for iname, ibits in inner:
                        need += count(iname, (i,)) * ibits
        elif ident[:3] in pinned.MSM_SIG and len(ident) == 4 and ident[3] in "1234567":
            lvl = int(ident[3])
            need = pinned.MSM_HEADER + a["NSat"] * a["NSig"] + pinned.MSM_SAT_BITS[lvl] * a["NSat"] + pinned.MSM_CELL_BITS[lvl] * a["NCell"]
        else:
            return {"fails": False, "observed": "no pinned length formula"}
    except KeyError as e:
        return {"fails": True, "expected": "every counter of the pinned length formula is an attribute of the message", "observed": f"missing {e}"}
    return {"fails": 8 * len(p) < need, "expected": f"rejected: {ident} with these counters needs {need} bits", "observed": f"accepted with {8 * len(p)} bits"}


@check
def signature(inp):
    import re
    from spec import api
    m = re.search(r"\[(.*)\]", inp["obligation"])
    for n, ok, d in api.signature_lemmas([m.group(1)])():
        if n == inp["obligation"]:
            return {"fails": not ok, "expected": d.get("pinned"), "observed": d.get("tree")}
    return {"fails": False, "observed": "obligation no longer generated"}


@check
def positional_call(inp):
    """Options passed by position (documented order: parse(message, validate, labelmsm); RTCMMessage(payload, labelmsm)) have
    the effect of the same options passed by keyword."""
    from pyrtcm import RTCMMessage, RTCMReader
    msg = bytes.fromhex(inp["message"])
    v, lm = inp.get("validate", 1), inp.get("labelmsm", 1)

    def dig(r):
        return (r[0], r[1].__dict__ if r[0] == "ok" else r[1])
    a = dig(outcome(RTCMReader.parse, msg, validate=v, labelmsm=lm))
    b = dig(outcome(RTCMReader.parse, msg, v, lm))
    if a != b:
        return {"fails": True, "expected": f"parse(message, {v}, {lm}) == parse(message, validate={v}, labelmsm={lm})",
                "observed": str({k: (a[1].get(k), b[1].get(k)) for k in a[1] if a[1].get(k) != b[1].get(k)})[:300] if a[0] == b[0] == "ok" else (a[:2], b[:2])}
    p = msg[3:-3]
    a = dig(outcome(RTCMMessage, payload=p, labelmsm=lm))
    b = dig(outcome(RTCMMessage, p, lm))
    if a != b:
        return {"fails": True, "expected": f"RTCMMessage(payload, {lm}) == RTCMMessage(payload=payload, labelmsm={lm})", "observed": "differ"}
    return {"fails": False}


@check
def iteration_protocol(inp):
    """C05/C02: an iterator obtained once with iter(reader) and driven with next() - continuing after every library exception -
    yields exactly what repeated read() calls on an identical reader yield."""
    import io
    from pyrtcm import RTCMReader
    data = bytes.fromhex(inp["data"])
    q = inp.get("quitonerror", 2)

    def collect(step, n):
        out = []
        for _ in range(n):
            try:
                raw, msg = step()
            except StopIteration:
                out.append("end")
                break
            except BaseException as e:  # noqa
                if type(e).__name__ not in LIBS:
                    out.append(("foreign", type(e).__name__))
                    break
                out.append(("raise", type(e).__name__))
                continue
            if raw is None:
                out.append("end")
                break
            out.append(raw)
        return out
    n = len(data) + 10
    r1 = RTCMReader(io.BytesIO(data), quitonerror=q)
    want = collect(r1.read, n)
    r2 = RTCMReader(io.BytesIO(data), quitonerror=q)
    it = iter(r2)
    got = collect(lambda: next(it), n)
    r3 = RTCMReader(io.BytesIO(data), quitonerror=q)
    got3 = collect(lambda: next(r3), n)

    def show(x):
        return [y.hex()[:16] if isinstance(y, bytes) else y for y in x][:8]
    if got != want or got3 != want:
        return {"fails": True, "expected": show(want), "observed": show(got if got != want else got3)}
    return {"fails": False}


@check
def shared_stream_readers(inp):
    """C13: several reader objects over ONE raw (unbuffered) stream, used alternately: together they return every frame of the
    stream once, in order - a reader takes from the stream exactly the bytes of the frames it returns (no read-ahead)."""
    import io
    from pyrtcm import RTCMReader
    data = bytes.fromhex(inp["data"])

    class Raw(io.RawIOBase):
        def __init__(self):
            super().__init__()
            self.pos = 0

        def readable(self):
            return True

        def readinto(self, b):
            n = min(len(b), len(data) - self.pos)
            b[:n] = data[self.pos:self.pos + n]
            self.pos += n
            return n
    want = [r[0] for r in RTCMReader(io.BytesIO(data), quitonerror=0)]
    raw = Raw()
    readers = [RTCMReader(raw, quitonerror=0) for _ in range(inp.get("readers", 2))]
    got = []
    for k in range(len(want) + 1):  # the k-th call, on whichever reader, returns the k-th frame; then end of data
        got.append(readers[k % len(readers)].read()[0])
    exp = want + [None]
    return {"fails": got != exp, "expected": [x.hex()[:16] if x else None for x in exp][:6], "observed": [x.hex()[:16] if x else None for x in got][:6]}


@check
def reader_history(inp):
    """C13/C17: two readers alive at once, each with its own options, read alternately; each returns what it returns alone."""
    import io
    from pyrtcm import RTCMReader
    datas = [bytes.fromhex(h) for h in inp["streams"]]
    opts = inp["options"]

    def digest(pair):
        raw, msg = pair
        return (raw, None if msg is None else (msg.identity, {k: v for k, v in msg.__dict__.items() if not k.startswith("_")}))
    alone = []
    for d, o in zip(datas, opts):
        alone.append([digest(x) for x in RTCMReader(io.BytesIO(d), quitonerror=0, **o)])
    readers = [RTCMReader(io.BytesIO(d), quitonerror=0, **o) for d, o in zip(datas, opts)]
    got = [[] for _ in readers]
    live = [True] * len(readers)
    while any(live):
        for i, r in enumerate(readers):
            if live[i]:
                pair = r.read()
                if pair[0] is None:
                    live[i] = False
                else:
                    got[i].append(digest(pair))
    for i in range(len(readers)):
        if got[i] != alone[i]:
            return {"fails": True, "expected": f"reader {i} ({opts[i]}): {len(alone[i])} frames as when run alone",
                    "observed": f"{len(got[i])} frames / different attributes when interleaved with another reader"}
    return {"fails": False}


@check
def socket_history(inp):
    """C13: several socket readers one after the other in one process; each returns what a file holding its own bytes returns."""
    import io
    from pyrtcm import RTCMReader
    for k, (hexdata, sched, bufsize) in enumerate(inp["streams"]):
        data = bytes.fromhex(hexdata)
        a = [r[0] for r in RTCMReader(io.BytesIO(data), quitonerror=0)]
        b = [r[0] for r in RTCMReader(make_socket(data, sched), quitonerror=0, bufsize=bufsize)]
        if a != b:
            return {"fails": True, "expected": f"connection {k}: " + str([x.hex()[:20] for x in a][:6]), "observed": [x.hex()[:20] for x in b][:6]}
    return {"fails": False}


def chunked_encode(bodies, comp, upper, zero):
    """RFC 9112 7.1 chunked body; each chunk body optionally compressed (comp: 0 none, 2 gzip, 4 zlib, 8 raw deflate)."""
    import zlib
    out = b""
    for b in bodies:
        if comp == 2:
            c = zlib.compressobj(wbits=31)
            b = c.compress(b) + c.flush()
        elif comp == 4:
            b = zlib.compress(b)
        elif comp == 8:
            c = zlib.compressobj(wbits=-15)
            b = c.compress(b) + c.flush()
        size = ("%X" if upper else "%x") % len(b)
        out += size.encode() + b"\r\n" + b + b"\r\n"
    if zero:
        out += b"0\r\n\r\n"
    return out


@check
def chunked(inp):
    """C12: bytes delivered == concatenation of the decoded chunk bodies, for one segmentation of one body."""
    from pyrtcm.socketwrapper import SocketWrapper
    bodies = [bytes.fromhex(h) for h in inp["bodies"]]
    comp = inp.get("comp", 0)
    enc = chunked_encode(bodies, comp, inp.get("upper", False), inp.get("zero", True))
    trunc = inp.get("truncate")  # the peer closes in the middle of the body: whatever complete chunks arrived, then end of data
    if trunc is not None:
        enc = enc[:trunc]
    cuts = sorted(set(c for c in inp.get("cuts", []) if 0 < c < len(enc)))
    segs = [b - a for a, b in zip([0] + cuts, cuts + [len(enc)])]
    sock = make_socket(enc, segs)
    from spec.streams import ReadBudgetExceeded
    got = b""
    want = b"".join(bodies)
    # C11 alone states 'returns fewer only when the peer has closed or a timeout occurs'; C12 asks only for the delivered bytes
    import os as _os
    strict_empty = _os.environ.get("PYVC_PROPERTY") == "C11"
    try:
        w = SocketWrapper(sock, encoding=1 | comp, bufsize=inp.get("bufsize") or (len(enc) + 10))
        for _ in range(len(enc) + len(want) + 10):
            r = w.read(1)
            if not r:
                if sock.pos >= len(enc):
                    break
                if strict_empty:
                    return {"fails": True, "expected": "read(1) returns fewer bytes than requested only when the peer has closed or timed out",
                            "observed": f"b'' after {len(got)} bytes while the peer still had {len(enc) - sock.pos} bytes to send and no receive failed",
                            "encoded": enc.hex()[:120], "segments": segs}
                continue
            got += r
    except ReadBudgetExceeded as e:
        return {"fails": True, "expected": "read() returns once the peer has closed", "observed": f"does not terminate: {e}",
                "encoded": enc.hex()[:120], "segments": segs}
    except Exception as e:  # noqa  the wrapper's contracts raise nothing on a well-formed body, however it is segmented (C04, C12)
        return {"fails": True, "expected": want.hex()[:80], "observed": f"raises {type(e).__name__}: {e}"[:160],
                "encoded": enc.hex()[:120], "segments": segs}
    bad = (not want.startswith(got)) if trunc is not None else got != want
    return {"fails": bad, "expected": want.hex()[:80], "observed": got.hex()[:80], "encoded": enc.hex()[:120], "segments": segs}


@check
def array_helpers(inp):
    """C18: parse_msm / parse_4076_201 against the flat attributes of the same message."""
    from pyrtcm import RTCMMessage
    from pyrtcm.rtcmhelpers import parse_msm, parse_4076_201
    from pyrtcm.rtcmtypes_get_msm import RTCM_PAYLOADS_GET_MSM
    from spec import pinned
    p = bytes.fromhex(inp["payload"])
    try:
        m = RTCMMessage(payload=p)
    except BaseException as e:  # noqa
        return {"fails": False, "observed": f"constructor raised {type(e).__name__}"}
    ident = m.identity
    a = {k: v for k, v in m.__dict__.items() if not k.startswith("_")}
    r1, r2 = outcome(parse_msm, m), outcome(parse_4076_201, m)
    if r1[0] != "ok" or r2[0] != "ok":
        return {"fails": True, "expected": "no exception", "observed": (r1[:2] if r1[0] != "ok" else r2[:2])}
    if ident in RTCM_PAYLOADS_GET_MSM:
        if r1[1] is None:
            return {"fails": True, "expected": "(meta, sats, cells)", "observed": None}
        meta, sats, cells = r1[1]
        nsat, ncell = a["NSat"], a["NCell"]
        exp_s = [{k.rsplit("_", 1)[0]: v for k, v in a.items() if k.endswith("_%02d" % i) and k.rsplit("_", 1)[0] in
                  ("PRN", "DF397", "DF398", "DF399", "DF419", "ExtSatInfo")} for i in range(1, nsat + 1)]
        exp_c = [{k.rsplit("_", 1)[0]: v for k, v in a.items() if k.endswith("_%02d" % i) and k.rsplit("_", 1)[0] in
                  ("CELLPRN", "CELLSIG", "DF400", "DF401", "DF402", "DF403", "DF404", "DF405", "DF406", "DF407", "DF408", "DF420")}
                 for i in range(1, ncell + 1)]
        ok = (sats == exp_s and cells == exp_c and meta.get("identity") == ident and meta.get("epoch") == a[pinned.MSM_EPOCH[ident[:3]]]
              and meta.get("station") == a["DF003"] and meta.get("sats") == nsat and meta.get("cells") == ncell)
        if not ok:
            return {"fails": True, "expected": {"sats": len(exp_s), "cells": len(exp_c), "first": (exp_s[:1], exp_c[:1])},
                    "observed": {"sats": len(sats), "cells": len(cells), "first": (sats[:1], cells[:1]), "meta": meta}}
    elif r1[1] is not None:
        return {"fails": True, "expected": None, "observed": "parse_msm returned data for a non-MSM message"}
    if ident == "4076_201":
        h = r2[1]
        nl = a["IDF035"] + 1
        exp = {}
        for l in range(nl):
            cs = [a[k] for k in sorted((k for k in a if k.startswith("IDF039_%02d_" % (l + 1))), key=lambda k: int(k.rsplit("_", 1)[1]))]
            ss = [a[k] for k in sorted((k for k in a if k.startswith("IDF040_%02d_" % (l + 1))), key=lambda k: int(k.rsplit("_", 1)[1]))]
            exp[l] = {"Layer Height": a["IDF036_%02d" % (l + 1)], "Cosine Coefficients": cs, "Sine Coefficients": ss}
        if h != exp:
            return {"fails": True, "expected": {l: (v["Layer Height"], len(v["Cosine Coefficients"]), len(v["Sine Coefficients"])) for l, v in exp.items()},
                    "observed": None if h is None else {l: (v.get("Layer Height"), len(v.get("Cosine Coefficients", [])), len(v.get("Sine Coefficients", []))) for l, v in h.items()}}
    elif r2[1] is not None:
        return {"fails": True, "expected": None, "observed": "parse_4076_201 returned data for another message"}
    return {"fails": False}


@check
def helper_lists(inp):
    from contracts import helpers_arrays as ha
    for n, ok, d in ha.helper_list_lemma():
        if n == inp["obligation"]:
            return {"fails": not ok, "expected": "holds", "observed": d}
    return {"fails": False}
