"""Concrete oracles: run the real function from $VERIF_REPO/src and evaluate the same
postcondition on Python values.  Each check takes a JSON-able input and returns
{"fails": bool, "expected": .., "observed": ..}.  Used to replay counter-models (DESIGN 2.2)
and by the bounded stand-ins (DESIGN 2.5)."""
import importlib
import traceback

CHECKS = {}


def check(fn):
    CHECKS[fn.__name__] = fn
    return fn


def outcome(f, *a, **k):
    try:
        return ("ok", f(*a, **k))
    except BaseException as e:  # noqa
        return ("raise", type(e).__name__, str(e)[:200])


@check
def calc_crc24q(inp):
    from pyrtcm.rtcmhelpers import calc_crc24q as real
    from spec.crc import crc_bytes
    m = bytes.fromhex(inp["message"])
    exp = ("ok", crc_bytes(m))
    obs = outcome(real, m)
    return {"fails": exp != obs, "expected": exp, "observed": obs}


@check
def crc2bytes(inp):
    from pyrtcm.rtcmhelpers import crc2bytes as real
    from spec.crc import crc_bytes
    m = bytes.fromhex(inp["message"])
    exp = ("ok", crc_bytes(m).to_bytes(3, "big").hex())
    obs = outcome(real, m)
    if obs[0] == "ok":
        obs = ("ok", obs[1].hex() if isinstance(obs[1], (bytes, bytearray)) else repr(obs[1]))
    return {"fails": exp != obs, "expected": exp, "observed": obs}


@check
def len2bytes(inp):
    from pyrtcm.rtcmhelpers import len2bytes as real
    n = inp["length"]
    m = bytes(n)
    exp = ("ok", bytes([n // 256, n % 256]).hex()) if n < 65536 else ("raise", "OverflowError")
    obs = outcome(real, m)
    if obs[0] == "ok":
        obs = ("ok", obs[1].hex())
    else:
        obs = obs[:2]
    return {"fails": exp != obs, "expected": exp, "observed": obs}
