"""Lemmas about the *spec* CRC step (DESIGN C07/C08): each is one SMT obligation (pure
propositional after bit-listing) or a ground evaluation; the sequence inductions are
generated as base/step obligations over the prefix-indexed spec function CRCx."""
import z3

from pyvc.state import Obligation, State, byte_at, to_bits
from pyvc.values import ByteArr, SInt, bits_to_int, zand, znot, zor, zxor
from spec import crc as sc


def bv(name, n):
    return [z3.Bool(f"{name}_{j}") for j in range(n)]


def bxor(a, b):
    return [zxor(x, y) for x, y in zip(a, b)]


def beq(a, b):
    return z3.And(*[(x == y) if not isinstance(x, bool) and not isinstance(y, bool) else
                    (z3.BoolVal(x == y) if isinstance(x, bool) and isinstance(y, bool) else
                     (y if x else z3.Not(y)) if isinstance(x, bool) else (x if y else z3.Not(x)))
                    for x, y in zip(a, b)])


def nonzero(a):
    return z3.Or(*[x for x in a if not isinstance(x, bool)] + [z3.BoolVal(True)] * any(x is True for x in a))


def parity(a):
    p = False
    for x in a:
        p = zxor(p, x)
    return p


def ob(name, hyps, goal):
    return Obligation(name, hyps, goal, kind="lemma")


def step_lemmas():
    c, c2, o, o2 = bv("c", 24), bv("d", 24), bv("o", 8), bv("p", 8)
    out = []
    out.append(ob("lemma.crc.step.linearity", [],
                  beq(sc.step_bits(bxor(c, c2), bxor(o, o2)), bxor(sc.step_bits(c, o), sc.step_bits(c2, o2)))))
    out.append(ob("lemma.crc.step.zero_byte_injective", [z3.Not(nonzero(sc.step_bits(c, [False] * 8)))],
                  z3.Not(nonzero(c))))
    out.append(ob("lemma.crc.step.parity", [],
                  bool_eq(parity(sc.step_bits(c, o)), zxor(parity(c), parity(o)))))
    # append: feeding be24(c) into state c gives 0
    s = c
    for k in range(3):
        s = sc.step_bits(s, c[16 - 8 * k: 24 - 8 * k])
    out.append(ob("lemma.crc.append_own_crc_gives_zero", [], z3.Not(nonzero(s))))
    # unique: only be24(c) zeroes the register
    t = bv("t", 24)
    s = c
    for k in range(3):
        s = sc.step_bits(s, t[16 - 8 * k: 24 - 8 * k])
    out.append(ob("lemma.crc.trailer_unique", [z3.Not(nonzero(s))], beq(t, c)))
    # burst <= 24 bits inside 4 consecutive bytes, from state 0
    sb = bv("s", 32)  # stream order: s_0 first transmitted bit
    window = []
    for w in range(0, 9):
        window.append(z3.And(*[z3.Not(sb[p]) for p in range(32) if not (w <= p < w + 24)]))
    st = [False] * 24
    for i in range(4):
        byte_lsb_first = [sb[8 * i + (7 - j)] for j in range(8)]
        st = sc.step_bits(st, byte_lsb_first)
    out.append(ob("lemma.crc.burst_le_24_detected", [z3.Or(*window), z3.Or(*sb)], nonzero(st)))
    # zero byte from zero state stays zero (leading zeros of an error pattern)
    out.append(ob("lemma.crc.step.zero_from_zero", [], z3.Not(nonzero(sc.step_bits([False] * 24, [False] * 8)))))
    return out


def bool_eq(a, b):
    if isinstance(a, bool) and isinstance(b, bool):
        return z3.BoolVal(a == b)
    if isinstance(a, bool):
        return b if a else z3.Not(b)
    if isinstance(b, bool):
        return a if b else z3.Not(a)
    return a == b


def cbits(arr, lo, hi):
    """Bits of CRCx_arr(0, lo, hi) as functions of the integer (no arithmetic facts needed)."""
    from pyvc.state import INTBIT
    t = sc.crcx_fun(arr)(z3.IntVal(0), lo, hi)
    return [INTBIT(t, z3.IntVal(j)) for j in range(24)]


def abits(arr, i):
    return [arr.bit(8 * i + (7 - j)) for j in range(8)]


def unfold_bits(arr, n):
    """Bit-level form of the definitional unfolding CRCx(0,0,n+1) = step(CRCx(0,0,n), arr[n])."""
    zero = z3.IntVal(0)
    return beq(cbits(arr, zero, n + 1), sc.step_bits(cbits(arr, zero, n), abits(arr, n)))


def base_bits(arr):
    zero = z3.IntVal(0)
    return z3.Not(nonzero(cbits(arr, zero, zero)))


def induction_lemmas():
    """Sequence inductions over CRCx (bit-level), base + step each."""
    out = []
    n = z3.Int("n")
    zero = z3.IntVal(0)
    pre = [n >= 0]
    # ---- linearity: x[i] = f[i] xor e[i] for all i  =>  C_x(n) = C_f(n) xor C_e(n)
    f, e, x = ByteArr.get("lf"), ByteArr.get("le"), ByteArr.get("lx")
    out.append(ob("lemma.crc.linearity.induction_base", [base_bits(a) for a in (f, e, x)],
                  beq(cbits(x, zero, zero), bxor(cbits(f, zero, zero), cbits(e, zero, zero)))))
    hyps = pre + [beq(abits(x, n), bxor(abits(f, n), abits(e, n))),  # pointwise xor, instantiated at n
                  beq(cbits(x, zero, n), bxor(cbits(f, zero, n), cbits(e, zero, n)))]  # P(n)
    hyps += [unfold_bits(a, n) for a in (f, e, x)]
    out.append(ob("lemma.crc.linearity.induction_step", hyps,
                  beq(cbits(x, zero, n + 1), bxor(cbits(f, zero, n + 1), cbits(e, zero, n + 1)))))
    # ---- trailing zeros keep a non-zero register non-zero
    z = ByteArr.get("lz")
    out.append(ob("lemma.crc.nonzero_survives_zero_byte",
                  pre + [z3.Not(nonzero(abits(z, n))), nonzero(cbits(z, zero, n)), unfold_bits(z, n)],
                  nonzero(cbits(z, zero, n + 1))))
    # ---- leading zeros keep the zero register zero
    out.append(ob("lemma.crc.zero_prefix_keeps_zero",
                  pre + [z3.Not(nonzero(abits(z, n))), z3.Not(nonzero(cbits(z, zero, n))), unfold_bits(z, n)],
                  z3.Not(nonzero(cbits(z, zero, n + 1)))))
    # ---- parity of the register equals parity of the bits fed so far
    p = ByteArr.get("lp")
    par = z3.Function("Par_lp", z3.IntSort(), z3.BoolSort())  # parity of the first n bytes
    out.append(ob("lemma.crc.parity.induction_step",
                  pre + [par(n + 1) == zxor(par(n), parity(abits(p, n))),  # definitional unfolding of Par
                         bool_eq(parity(cbits(p, zero, n)), par(n)), unfold_bits(p, n)],
                  bool_eq(parity(cbits(p, zero, n + 1)), par(n + 1))))
    out.append(ob("lemma.crc.parity.induction_base", [base_bits(p), par(0) == z3.BoolVal(False)],
                  bool_eq(parity(cbits(p, zero, zero)), par(0))))
    return out


def pad24(b):
    return list(b) + [False] * (24 - len(b))


def beq24(a, b):
    return beq(pad24(a), pad24(b))


def bxor24(a, b):
    return bxor(pad24(a), pad24(b))


# ---------------------------------------------------------------------------------------
# ground lemmas
# ---------------------------------------------------------------------------------------
def polymod(a, g=sc.G):
    dg = g.bit_length() - 1
    while a.bit_length() - 1 >= dg and a:
        a ^= g << (a.bit_length() - 1 - dg)
    return a


def ground_lemmas():
    out = []
    # two flipped bits at distance d: (x^d + 1) * x^24 mod G != 0 for all d up to the maximum
    # frame size 1029 bytes (property C08's own bound); x is invertible mod G (G(0) = 1)
    bad = [d for d in range(1, 1029 * 8) if polymod(((1 << d) | 1) << 24) == 0]
    out.append(("lemma.crc.two_bit_errors_detected[d<=8231]", not bad, {"distances_undetected": bad[:5]}))
    out.append(("lemma.crc.G_constant_term_is_1", sc.G & 1 == 1, {}))
    # the spec oracle itself against an independent formulation and the published check value
    ok_vec = sc.crc_bytes(b"123456789") == 0xCDE703
    out.append(("spec.crc.check_value_123456789_is_CDE703", ok_vec, {"got": hex(sc.crc_bytes(b"123456789"))}))
    import random
    rnd = random.Random(12345)
    mism = []
    for _ in range(300):
        m = bytes(rnd.randrange(256) for _ in range(rnd.randrange(0, 40)))
        if sc.crc_bytes(m) != sc.crc_bitserial(m) or sc.crc_bytes(m) != polymod(int.from_bytes(m, "big") << 24 if m else 0):
            mism.append(m.hex())
    out.append(("spec.crc.step_formulation_agrees_with_polynomial_division_and_bitserial", not mism, {"mismatch": mism[:3]}))
    return out
