"""CRC-24Q specification (DESIGN 3.2) - written from the definition in the property text:
remainder of s(x)*x^24 divided by G = 0x1864CFB over GF(2), MSB first, init 0, no final xor.

The one-byte step is formulated as *polynomial long division* of the 32-bit dividend
c*x^8 + o*x^24 by G (conditional subtraction of G*x^i, i = 7..0) - deliberately different
from the shift-register loop in pyrtcm.rtcmhelpers.calc_crc24q.

The functions are generic over the bit type: Python bools (concrete oracle) or z3 Bool
terms (symbolic), through the z* helpers.
"""
import z3

from pyvc.values import zand, znot, zor, zxor, zite, bits_to_int

G = 0x1864CFB
GBITS = [bool((G >> j) & 1) for j in range(25)]


def step_bits(c, o):
    """c: 24 bits LSB first, o: 8 bits LSB first -> 24 bits: (c*x^8 + o*x^24) mod G."""
    c = list(c) + [False] * (24 - len(c))
    o = list(o) + [False] * (8 - len(o))
    d = [False] * 8 + c[:24]  # c * x^8
    for j in range(8):  # + o * x^24
        d[24 + j] = zxor(d[24 + j], o[j])
    for i in range(7, -1, -1):
        top = d[24 + i]
        for j in range(25):
            if GBITS[j]:
                d[i + j] = zxor(d[i + j], top)
    return d[:24]


def step_int(c, o):
    """Concrete oracle: ints."""
    cb = [bool((c >> j) & 1) for j in range(24)]
    ob = [bool((o >> j) & 1) for j in range(8)]
    r = step_bits(cb, ob)
    return sum(1 << j for j, b in enumerate(r) if b)


def crc_bytes(data, c=0):
    """Concrete CRC-24Q of a bytes value (reference oracle; independent of pyrtcm)."""
    for o in data:
        c = step_int(c, o)
    return c


# a second, textbook bit-serial formulation used to cross-check the oracle itself
def crc_bitserial(data):
    rem = 0
    for byte in data:
        for k in range(7, -1, -1):
            bit = (byte >> k) & 1
            top = (rem >> 23) & 1
            rem = ((rem << 1) & 0xFFFFFF)
            if top ^ bit:
                rem ^= G & 0xFFFFFF
    return rem


# ---------------------------------------------------------------------------------------
# symbolic: prefix-indexed spec function over ghost byte arrays (Appendix A)
# ---------------------------------------------------------------------------------------
_crcx = {}


def crcx_fun(arr):
    if arr.name not in _crcx:
        _crcx[arr.name] = z3.Function(f"CRCx_{arr.name}", z3.IntSort(), z3.IntSort(), z3.IntSort(), z3.IntSort())
    return _crcx[arr.name]


def crcx(st, arr, c0, lo, hi):
    """Int term: CRC state after feeding arr[lo:hi] into state c0, with its range fact."""
    t = crcx_fun(arr)(c0, lo, hi)
    st.assume(z3.And(t >= 0, t < (1 << 24)))
    return t


def crcx_base(st, arr, c0, lo):
    """Definitional instance: feeding nothing leaves the state unchanged."""
    return crcx_fun(arr)(c0, lo, lo) == c0


def crcx_unfold(st, arr, c0, lo, hi):
    """Definitional instance: CRCx(c0, lo, hi+1) = step(CRCx(c0, lo, hi), arr[hi])."""
    from pyvc.state import byte_at, to_bits
    from pyvc.values import SInt
    prev = crcx(st, arr, c0, lo, hi)
    nxt = crcx(st, arr, c0, lo, hi + 1)
    cb = to_bits(st, SInt(prev))
    ob = to_bits(st, SInt(byte_at(st, arr, hi)))
    sb = step_bits(cb, ob)
    # by uniqueness of binary expansions the bits of CRCx(.., hi+1) are the step's bit list
    from pyvc.state import INTBIT
    same = [INTBIT(nxt, z3.IntVal(j)) == (b if not isinstance(b, bool) else z3.BoolVal(b)) for j, b in enumerate(sb)]
    return z3.And(nxt == bits_to_int(sb), *same)


def crc_of_value(st, v, c0=0):
    """Spec CRC of an engine bytes value (any segment structure), as an int-like value."""
    from pyvc.ops import seg_len
    from pyvc.state import to_bits, determined_int
    from pyvc.values import SInt, SBits, View, Items, as_sbytes
    v = as_sbytes(v)
    c = c0
    for s in v.segs:
        if isinstance(s, View):
            ct = c if isinstance(c, int) else (bits_to_int(c.bits) if isinstance(c, SBits) else c.t)
            if isinstance(ct, int):
                ct = z3.IntVal(ct)
            c = SInt(crcx(st, s.arr, ct, s.lo, s.hi))
        else:
            items = list(s) if isinstance(s, bytes) else list(s.items)
            for it in items:
                if isinstance(c, int) and isinstance(it, int):
                    c = step_int(c, it)
                else:
                    cb = to_bits(st, c)
                    ob = to_bits(st, it)
                    c = SBits(step_bits(cb, ob))
    return c
