"""MSM mask semantics (property C09), symbolic and concrete.

Satellite mask: 64 bits, position p = 1..64 counted from the MSB; the i-th set bit names
satellite ID p and is labelled PRN_c(p) (constellation table, "N/A" outside it).
Signal mask: 32 bits likewise, labelled LABEL_c(q, opt) (RINEX code, or band if opt == 2).
Cell mask: NSat*NSig bits, MSB first, satellite-major: bit j belongs to satellite
ceil(j / NSig) and signal ((j-1) mod NSig); the k-th set bit is cell k.
"""
import z3

NA = "N/A"

_funs = {}


def fun(name, *sig):
    if name not in _funs:
        _funs[name] = z3.Function(name, *sig)
    return _funs[name]


def popcount_slice(st, sl):
    """Number of set bits of a symbolic-width slice of the payload: a function of
    (array, first bit, width)."""
    arr = sl.pay.view.arr
    first = 8 * sl.pay.view.lo + (sl.pay.nbits - sl.k - sl.a)
    f = fun(f"Pop_{arr.name}", z3.IntSort(), z3.IntSort(), z3.IntSort())
    t = f(z3.simplify(first), sl.a)
    st.assume(t >= 0)
    return t


def ite_str(cases, default):
    t = z3.StringVal(default) if isinstance(default, str) else default
    for c, v in reversed(cases):
        t = z3.If(c, z3.StringVal(v) if isinstance(v, str) else v, t)
    return t


def mask_positions(bits, width):
    """bits: LSB-first list; -> list over p = 1..width of (p, bit_p) MSB first."""
    bits = list(bits) + [False] * (width - len(bits))
    return [(p, bits[width - p]) for p in range(1, width + 1)]


def b2i(b):
    if isinstance(b, bool):
        return z3.IntVal(int(b))
    return z3.If(b, z3.IntVal(1), z3.IntVal(0))


def bt(b):
    return z3.BoolVal(b) if isinstance(b, bool) else b


def ith_set_bit_label(positions, i, label):
    """Label of the i-th set bit (i >= 1, concrete): the position p with bit_p set and exactly
    i-1 set bits before it."""
    cases = []
    rank = z3.IntVal(0)
    for p, b in positions:
        rank_before = rank
        rank = rank + b2i(b)
        cases.append((z3.And(bt(b), rank_before == i - 1), label(p)))
    return ite_str(cases, "")


def popcount_bits(positions):
    return z3.Sum([b2i(b) for _, b in positions]) if positions else z3.IntVal(0)


def prn_label(prnmap):
    return lambda p: prnmap.get(p, NA)


def sig_label(sigmap, rinex):
    def f(q):
        ent = sigmap.get(q)
        if ent is None:
            return NA
        return ent[1] if rinex else ent[0]
    return f


# ---------------------------------------------------------------------------------------
# "k-th set bit" folds: prefix-indexed spec functions (unfolded by the engine at the loop index)
# ---------------------------------------------------------------------------------------
class Fold:
    """Rank(i) = number of set bits among positions 1..i;  Arr_v(i) / Dom(i) = the map after i
    positions: a set bit at position i+1 stores its value(s) at key Rank(i) + base."""

    def __init__(self, tag, nvals=1, base=1):
        I, S, B = z3.IntSort(), z3.StringSort(), z3.BoolSort()
        self.tag, self.nvals, self.base = tag, nvals, base
        self.rank = fun(f"Rank_{tag}", I, I)
        self.arr = [fun(f"Arr{v}_{tag}", I, z3.ArraySort(I, S)) for v in range(nvals)]
        self.dom = fun(f"Dom_{tag}", I, z3.ArraySort(I, B))

    def base_facts(self):
        e = z3.K(z3.IntSort(), z3.StringVal(""))
        return z3.And(self.rank(0) == 0, *[a(0) == e for a in self.arr], self.dom(0) == z3.K(z3.IntSort(), z3.BoolVal(False)))

    def unfold(self, i, bit, vals):
        """Definition at position i+1."""
        bit = bt(bit)
        k = self.rank(i) + self.base
        j = i + 1
        return z3.And(
            self.rank(j) == self.rank(i) + z3.If(bit, 1, 0),
            *[a(j) == z3.If(bit, z3.Store(a(i), k, v if not isinstance(v, str) else z3.StringVal(v)), a(i)) for a, v in zip(self.arr, vals)],
            self.dom(j) == z3.If(bit, z3.Store(self.dom(i), k, z3.BoolVal(True)), self.dom(i)),
        )


def fold_lemmas():
    """The fold formulation has the property's meaning - proved once, for every mask width,
    every bit pattern and every labelling (bit/value are uninterpreted), by induction on n:
      monotone : j <= n  =>  Rank(j) <= Rank(n)
      kth      : 1 <= j <= n and bit(j)  =>  Arr(n)[Rank(j) - 1 + base] = value(j)
                 (the i-th set bit's value sits at key i (+base-1): 'the i-th entry is labelled
                 with the label of the i-th set bit')
      domain   : Dom(n)[x]  <=>  base <= x < Rank(n) + base
    """
    from pyvc.state import Obligation
    I = z3.IntSort()
    out = []
    for base in (0, 1):
        F = Fold(f"L{base}", 1, base)
        bitU = fun(f"lem_bit{base}", I, z3.BoolSort())
        valU = fun(f"lem_val{base}", I, z3.StringSort())
        n, j, x = z3.Ints("n j x")
        unf = F.unfold(n, bitU(n + 1), [valU(n + 1)])
        pre = [n >= 0, unf]
        # monotone
        out.append(Obligation(f"lemma.fold{base}.monotone.base", [F.base_facts()],
                              z3.Implies(z3.And(j >= 0, j <= 0), F.rank(j) <= F.rank(0)), kind="lemma"))
        out.append(Obligation(f"lemma.fold{base}.monotone.step", pre + [z3.Implies(z3.And(j >= 0, j <= n), F.rank(j) <= F.rank(n))],
                              z3.Implies(z3.And(j >= 0, j <= n + 1), F.rank(j) <= F.rank(n + 1)), kind="lemma"))
        # k-th set bit
        ih = z3.Implies(z3.And(j >= 1, j <= n, bitU(j)), z3.Select(F.arr[0](n), F.rank(j) - 1 + base) == valU(j))
        mono = z3.Implies(z3.And(j >= 0, j <= n), F.rank(j) <= F.rank(n))  # instance of the lemma above
        goal = z3.Implies(z3.And(j >= 1, j <= n + 1, bitU(j)), z3.Select(F.arr[0](n + 1), F.rank(j) - 1 + base) == valU(j))
        out.append(Obligation(f"lemma.fold{base}.kth_set_bit_value.step", pre + [ih, mono], goal, kind="lemma"))
        out.append(Obligation(f"lemma.fold{base}.kth_set_bit_value.base", [F.base_facts()],
                              z3.Implies(z3.And(j >= 1, j <= 0, bitU(j)), z3.Select(F.arr[0](0), F.rank(j) - 1 + base) == valU(j)), kind="lemma"))
        # domain
        ihd = z3.Select(F.dom(n), x) == z3.And(x >= base, x < F.rank(n) + base)
        out.append(Obligation(f"lemma.fold{base}.domain.step", pre + [ihd, F.rank(n) >= 0],
                              z3.Select(F.dom(n + 1), x) == z3.And(x >= base, x < F.rank(n + 1) + base), kind="lemma"))
        out.append(Obligation(f"lemma.fold{base}.domain.base", [F.base_facts()],
                              z3.Select(F.dom(0), x) == z3.And(x >= base, x < F.rank(0) + base), kind="lemma"))
        out.append(Obligation(f"lemma.fold{base}.rank_nonnegative.step", pre + [F.rank(n) >= 0], F.rank(n + 1) >= 0, kind="lemma"))
    # satellite-major indexing of the cell mask: position j = s*nsig + t + 1 (0 <= t < nsig) belongs to
    # satellite s+1 = ceil(j / nsig) and signal t = (j-1) mod nsig, and j <= nsat*nsig
    s, t, nsat, nsig = z3.Ints("s t nsat nsig")
    h = [s >= 0, s < nsat, t >= 0, t < nsig]
    jj = s * nsig + t + 1
    out.append(Obligation("lemma.cells.satellite_major_indexing", h,
                          z3.And((jj - 1) / nsig + 1 == s + 1, (jj - 1) % nsig == t, jj <= nsat * nsig, jj >= 1), kind="lemma"))
    return out
