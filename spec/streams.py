"""Concrete stream builders and the concrete reader oracle (replay of C01/C02/C04/C05/C17
counter-models and the bounded stand-ins).  Independent of pyrtcm's reader: items are built
here, with the spec CRC, and the expectation is computed from the item list."""
import io
import random

from spec.crc import crc_bytes

NMEA_TALKERS = b"VMPBDILGFSHREYACZTW"


def frame(payload: bytes) -> bytes:
    m = b"\xd3" + len(payload).to_bytes(2, "big") + payload
    return m + crc_bytes(m).to_bytes(3, "big")


def ubx(cls, mid, payload: bytes) -> bytes:
    body = bytes([cls, mid]) + len(payload).to_bytes(2, "little") + payload
    a = b = 0
    for x in body:
        a = (a + x) & 255
        b = (b + a) & 255
    return b"\xb5\x62" + body + bytes([a, b])


def nmea(talker: int, text: bytes) -> bytes:
    return b"$" + bytes([talker]) + text.replace(b"\n", b" ") + b"\r\n"


def payload_for(mid, n, rnd, sub=None):
    """n >= 2 bytes whose first 12 bits are the message number."""
    body = bytearray(rnd.randrange(256) for _ in range(max(n, 2)))
    body[0] = mid >> 4
    body[1] = ((mid & 0xF) << 4) | (body[1] & 0xF)
    if mid == 4076 and n >= 3 and sub is not None:
        body[1] = (body[1] & 0xFE) | (sub >> 7)
        body[2] = ((sub & 0x7F) << 1) | (body[2] & 1)
    return bytes(body[:n]) if n >= 2 else bytes(body[:n])


P1005 = bytes.fromhex("3ed000034b4b5bd5c7a2086d5b2c3e3ddd9ce9")  # a 19-byte 1005 body (values arbitrary)


def good_payloads(rnd):
    """Payloads that are known to construct (unknown types always do; 1005 with 19 bytes does)."""
    k = rnd.randrange(6)
    if k == 0:
        return payload_for(1005, 19, rnd)
    if k == 1:
        return payload_for(rnd.choice([0, 1, 999, 1000, 4095, 4000, 1070, 1078, 1229, 1236]), rnd.choice([2, 3, 5, 40, 1023]), rnd)
    if k == 2:
        return payload_for(4076, rnd.choice([3, 4, 30]), rnd, sub=rnd.choice([0, 1, 20, 200, 255]))
    if k == 3:
        return payload_for(1029, 9, rnd)[:8] + b"\x00"  # 1029 with zero code units: 72 bits
    if k == 4:
        return payload_for(4095, 1023, rnd)
    return payload_for(rnd.randrange(1240, 4000), rnd.randrange(2, 60), rnd)


def item(kind, rnd):
    """-> (kind, bytes, payload or None)."""
    if kind == "rtcm":
        p = good_payloads(rnd)
        return ("rtcm", frame(p), p)
    if kind == "rtcm1":  # one-byte payloads: every value, so that CRC trailers ending in a sync byte occur
        p = bytes([rnd.randrange(256)])
        return ("filler", frame(p), p)
    if kind == "filler":
        p = bytes(rnd.randrange(256) for _ in range(rnd.choice([0, 0, 1])))
        return ("filler", frame(p), p)
    if kind == "ubx":
        return ("ubx", ubx(rnd.randrange(256), rnd.randrange(256), bytes(rnd.randrange(256) for _ in range(rnd.choice([0, 1, 2, 7, 300])))), None)
    if kind == "nmea":
        txt = bytes(rnd.choice(b"ABCDEFGHIJKLMNOPQRSTUVWXYZ0123456789,.*") for _ in range(rnd.randrange(0, 30)))
        if rnd.random() < 0.3:  # sync bytes inside the sentence are inert
            txt += bytes([rnd.choice([0xD3, 0xB5, 0x24])]) + b",1"
        return ("nmea", nmea(rnd.choice(NMEA_TALKERS), txt), None)
    if kind == "noise":
        return ("noise", bytes(rnd.choice([x for x in range(256) if x not in (0xD3, 0xB5, 0x24)]) for _ in range(rnd.randrange(1, 6))), None)
    raise ValueError(kind)


def wellformed_stream(rnd, n=None, kinds=("rtcm", "rtcm", "filler", "ubx", "nmea", "noise")):
    n = n if n is not None else rnd.randrange(1, 8)
    return [item(rnd.choice(kinds), rnd) for _ in range(n)]


def damage(fr: bytes, rnd):
    """Guaranteed-detectable damage behind the 3-byte header: 1-3 flipped bits or a burst <= 24 bits."""
    b = bytearray(fr)
    nbits = (len(fr) - 3) * 8
    if rnd.random() < 0.5:
        for pos in rnd.sample(range(nbits), rnd.choice([1, 2, 3]) if nbits >= 3 else 1):
            b[3 + pos // 8] ^= 0x80 >> (pos % 8)
    else:
        span = rnd.randrange(1, min(24, nbits) + 1)
        start = rnd.randrange(0, nbits - span + 1)
        pat = rnd.getrandbits(span) | 1 | (1 << (span - 1))
        for k in range(span):
            if (pat >> k) & 1:
                pos = start + k
                b[3 + pos // 8] ^= 0x80 >> (pos % 8)
    return bytes(b)


def adversarial_stream(rnd):
    """Arbitrary bytes dense in sync characters, truncated and damaged frames (C01/C04)."""
    out = bytearray()
    seen = []
    for _ in range(rnd.randrange(1, 8)):
        k = rnd.randrange(10)
        if k >= 8 and seen:
            # a repeat of an earlier intact frame, damaged only in its payload or only in its trailer
            f = bytearray(rnd.choice(seen))
            if k == 8 and len(f) > 6:
                f[3 + rnd.randrange(len(f) - 6)] ^= 1 << rnd.randrange(8)
            else:
                f[len(f) - 1 - rnd.randrange(3)] ^= 1 << rnd.randrange(8)
            out += f
            continue
        if k >= 8:
            k = 0
        if k == 0 and rnd.random() < 0.7:
            f = frame(good_payloads(rnd))
            seen.append(f)
            out += f
            continue
        if k == 0:
            out += frame(good_payloads(rnd)) if rnd.random() < 0.7 else frame(bytes(rnd.randrange(256) for _ in range(rnd.choice([0, 0, 1, 2]))))
        elif k == 1:
            f = frame(good_payloads(rnd))
            out += f[:rnd.randrange(1, len(f))]
        elif k == 2:
            out += damage(frame(good_payloads(rnd)), rnd)
        elif k == 3:
            out += bytes(rnd.choice([0xD3, 0xB5, 0x24, 0x62, 0x00, 0x01, 0x03, 0x47, 0x0A]) for _ in range(rnd.randrange(1, 12)))
        elif k == 4:
            out += item("ubx", rnd)[1][:rnd.randrange(2, 12)]
        elif k == 5:
            out += item("nmea", rnd)[1]
        elif k == 6:
            out += b"\xd3" + bytes([rnd.randrange(4), rnd.randrange(256)]) + bytes(rnd.randrange(256) for _ in range(rnd.randrange(0, 20)))
        else:
            out += bytes(rnd.randrange(256) for _ in range(rnd.randrange(1, 10)))
    return bytes(out)


class ReadBudgetExceeded(BaseException):
    """The reader keeps calling read() on an exhausted finite stream: non-termination (C04)."""


class FaultyStream:
    """Recording / fault-injecting double: each read may be cut short according to `cuts`
    (a list of ints; cut k is the maximum number of bytes read call k may return; None = no cut)."""

    def __init__(self, data, cuts=(), as_bytearray=False):
        self.data = data
        self.as_bytearray = as_bytearray  # a duck-typed stream whose reads return bytearray objects
        self.pos = 0
        self.cuts = list(cuts)
        self.calls = 0
        self.last_empty = False

    def _limit(self, n):
        c = self.cuts[self.calls] if self.calls < len(self.cuts) else None
        self.calls += 1
        if self.calls > 50 * len(self.data) + 2000:
            raise ReadBudgetExceeded(f"{self.calls} stream reads for {len(self.data)} bytes")
        return n if c is None else min(n, c)

    def read(self, n):
        if n is None or n < 0:
            n = len(self.data) - self.pos  # io semantics: a negative size reads everything that is left
        n = self._limit(n)
        d = self.data[self.pos:self.pos + n]
        self.pos += len(d)
        self.last_empty = len(d) == 0
        return bytearray(d) if self.as_bytearray else d

    def readline(self):
        i = self.data.find(b"\n", self.pos)
        full = (i + 1 - self.pos) if i >= 0 else len(self.data) - self.pos
        n = self._limit(full)
        d = self.data[self.pos:self.pos + n]
        self.pos += len(d)
        self.last_empty = len(d) == 0
        return bytearray(d) if self.as_bytearray else d


def frame_with_crc_inside(rnd, n=40):
    """A valid frame of an unknown message type whose payload contains, at a chosen place, the very 3 bytes that are its CRC-24Q
    (CRC is affine in those 3 bytes: solve (M + I) x = c over GF(2)).  None if the system happens to be singular."""
    k = rnd.randrange(2, n - 3)
    base = bytearray(payload_for(4001, n, rnd))
    base[k:k + 3] = b"\x00\x00\x00"
    hdr = b"\xd3" + bytes([n >> 8, n & 255])

    def crc_of(x):
        b = bytearray(base)
        b[k:k + 3] = x.to_bytes(3, "big")
        return crc_bytes(hdr + bytes(b))
    c = crc_of(0)
    cols = [crc_of(1 << j) ^ c for j in range(24)]  # column j of M
    # rows of (M + I | c): bit i of equation
    rows = []
    for i in range(24):
        coef = 0
        for j in range(24):
            if ((cols[j] >> i) & 1) ^ (1 if i == j else 0):
                coef |= 1 << j
        rows.append([coef, (c >> i) & 1])
    x = 0
    piv = []
    r = 0
    for j in range(24):
        p = next((q for q in range(r, 24) if (rows[q][0] >> j) & 1), None)
        if p is None:
            continue
        rows[r], rows[p] = rows[p], rows[r]
        for q in range(24):
            if q != r and (rows[q][0] >> j) & 1:
                rows[q][0] ^= rows[r][0]
                rows[q][1] ^= rows[r][1]
        piv.append((r, j))
        r += 1
    if any(rows[q][0] == 0 and rows[q][1] for q in range(24)):
        return None
    for rr, j in piv:
        if rows[rr][1]:
            x |= 1 << j
    b = bytearray(base)
    b[k:k + 3] = x.to_bytes(3, "big")
    f = frame(bytes(b))
    return f if f[-3:] == bytes(b[k:k + 3]) else None


class SeekableStream(FaultyStream):
    """The same double with the random-access methods of a file / BytesIO.  A reader has no business moving the cursor: after a
    seek() the recorded position is what the reader left, so the oracles see re-read or skipped bytes as out-of-order slices."""

    def seekable(self):
        return True

    def tell(self):
        return self.pos

    rewound = 0

    def seek(self, offset, whence=0):
        old = self.pos
        self.pos = {0: 0, 1: self.pos, 2: len(self.data)}[whence] + offset
        self.pos = max(0, min(self.pos, len(self.data)))
        if self.pos < old:
            self.rewound += old - self.pos
        return self.pos


class BadTellStream(FaultyStream):
    """A pipe-like stream: it has tell()/seek() attributes, but they raise (io.UnsupportedOperation is an OSError)."""

    def seekable(self):
        return False

    def tell(self):
        import io
        raise io.UnsupportedOperation("underlying stream is not seekable")

    def seek(self, offset, whence=0):
        import io
        raise io.UnsupportedOperation("underlying stream is not seekable")


def wf_frame(raw: bytes) -> bool:
    return (len(raw) >= 6 and raw[0] == 0xD3 and raw[1] & 0xFC == 0 and ((raw[1] & 3) << 8 | raw[2]) == len(raw) - 6
            and crc_bytes(raw) == 0)


def frame_with_trailer_suffix(rnd, suffix=b"\r\n", n=12):
    """A valid frame of an unknown type whose CRC trailer ends with `suffix` (1 or 2 bytes):
    CRC-24Q is linear, so the last two payload bytes are solved for over GF(2)."""
    k = 8 * len(suffix)
    target = int.from_bytes(suffix, "big")
    mask = (1 << k) - 1
    for _ in range(20):
        p = bytearray(payload_for(4095, n, rnd))
        p[-2] = p[-1] = 0
        head = b"\xd3" + len(p).to_bytes(2, "big")
        base = crc_bytes(head + bytes(p)) & mask
        zero = bytes(len(head) + len(p))
        cols = []
        for i in range(16):
            z = bytearray(zero)
            z[len(zero) - 2 + i // 8] = 0x80 >> (i % 8)
            cols.append(crc_bytes(bytes(z)) & mask)
        want = base ^ target
        # Gaussian elimination: find subset of cols xoring to want
        basis = []  # (vector, combination bitmask)
        for i, c in enumerate(cols):
            comb = 1 << i
            for bv, bc in basis:
                if c ^ bv < c:
                    c ^= bv
                    comb ^= bc
            if c:
                basis.append((c, comb))
                basis.sort(reverse=True)
        comb = 0
        w = want
        for bv, bc in basis:
            if w ^ bv < w:
                w ^= bv
                comb ^= bc
        if w:
            continue
        for i in range(16):
            if (comb >> i) & 1:
                p[len(p) - 2 + i // 8] ^= 0x80 >> (i % 8)
        f = frame(bytes(p))
        if f.endswith(suffix):
            return f
    return None
