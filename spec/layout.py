"""Reference layout interpreter R, symbolic form over an *abstract* message state
(DESIGN 3.2 / C03-L2).  The leaf transformer is uninterpreted here (its meaning is the L1
contract of _set_attribute_single); what R pins down is the glue the property describes:
definition order, one index per nesting level counted from 1, '+n' counter names, IDF035+1,
conditional presence, and error propagation.

State = (S: MsgState, off: Int); every function returns (ok: Bool, S', off') where S', off'
are meaningful only when ok holds (the walk is abandoned at the first failing step).
"""
import z3

MsgState = z3.DeclareSort("MsgState")

_fun = {}


def fun(name, *sig):
    if name not in _fun:
        _fun[name] = z3.Function(name, *sig)
    return _fun[name]


I, B = z3.IntSort(), z3.BoolSort()


def leaf_funs(anam, arity):
    sig = [MsgState, I] + [I] * arity
    return (fun(f"leafOk_{anam}_{arity}", *sig, B), fun(f"leafS_{anam}_{arity}", *sig, MsgState),
            fun(f"leafOff_{anam}_{arity}", *sig, I))


def attr_funs(base, arity):
    sig = [MsgState] + [I] * arity
    return fun(f"absHas_{base}_{arity}", *sig, B), fun(f"absGet_{base}_{arity}", *sig, I)


_node_ids = {}


def node_id(gdict):
    k = id(gdict)
    if k not in _node_ids:
        _node_ids[k] = (len(_node_ids), gdict)
    return _node_ids[k][0]


def iter_funs(gdict, arity):
    """Iter*(k, S0, off0, idx...) = state after k iterations of the group body."""
    n = node_id(gdict)
    sig = [I, MsgState, I] + [I] * arity
    return (fun(f"IterOk_n{n}_{arity}", *sig, B), fun(f"IterS_n{n}_{arity}", *sig, MsgState),
            fun(f"IterOff_n{n}_{arity}", *sig, I))


def count_name(anam, idx):
    """Resolve the '+n' suffix: -> (base, [index terms])."""
    if "+" in anam:
        base, lvl = anam.split("+")
        return base, list(idx[:int(lvl)])
    return anam, []


def R_item(key, adef, S, off, idx):
    if isinstance(adef, tuple):
        gtyp, gdict = adef
        if isinstance(gtyp, tuple):
            return R_optional(adef, S, off, idx)
        return R_group(adef, S, off, idx)
    ok, fs, fo = leaf_funs(key, len(idx))
    args = [S, off] + list(idx)
    return ok(*args), fs(*args), fo(*args)


def R_body(gdict, S, off, idx):
    ok = z3.BoolVal(True)
    for key, adef in gdict.items():
        o, S, off = R_item(key, adef, S, off, idx)
        ok = z3.And(ok, o)
    return z3.simplify(ok), S, off


def group_count(cnt, S, idx):
    """-> (present Bool, n Int): number of repeats (property: counts refer to fields decoded
    earlier; the 4076_201 layer count is transmitted minus one)."""
    if isinstance(cnt, int):
        return z3.BoolVal(True), z3.IntVal(cnt)
    base, cidx = count_name(cnt, idx)
    has, get = attr_funs(base, len(cidx))
    n = get(S, *cidx)
    if base == "IDF035":
        n = n + 1
    return has(S, *cidx), n


def R_group(adef, S, off, idx):
    cnt, gdict = adef
    present, n = group_count(cnt, S, idx)
    k = z3.If(n >= 0, n, z3.IntVal(0))
    iok, iS, ioff = iter_funs(gdict, len(idx))
    args = [k, S, off] + list(idx)
    return z3.And(present, iok(*args)), iS(*args), ioff(*args)


def iter_base(gdict, S, off, idx):
    iok, iS, ioff = iter_funs(gdict, len(idx))
    a = [z3.IntVal(0), S, off] + list(idx)
    return z3.And(iok(*a), iS(*a) == S, ioff(*a) == off)


def iter_unfold(gdict, k, S, off, idx):
    """Definitional instance: Iter(k+1) = Body(index = idx ++ [k+1]) after Iter(k)."""
    iok, iS, ioff = iter_funs(gdict, len(idx))
    a0 = [k, S, off] + list(idx)
    a1 = [k + 1, S, off] + list(idx)
    bok, bS, boff = R_body(gdict, iS(*a0), ioff(*a0), list(idx) + [k + 1])
    return z3.And(iok(*a1) == z3.And(iok(*a0), bok), iS(*a1) == bS, ioff(*a1) == boff)


def iter_downward(gdict, j, n, S, off, idx):
    """Lemma instance (proved separately by induction from iter_unfold): failure is permanent,
    IterOk(n) and j <= n imply IterOk(j)."""
    iok, _, _ = iter_funs(gdict, len(idx))
    return z3.Implies(z3.And(j <= n, iok(*([n, S, off] + list(idx)))), iok(*([j, S, off] + list(idx))))


def R_optional(adef, S, off, idx):
    (cname, cval), gdict = adef
    has, get = attr_funs(cname, 0)
    bok, bS, boff = R_body(gdict, S, off, idx)
    cond = get(S) == cval
    return (z3.And(has(S), z3.Implies(cond, bok)), z3.If(cond, bS, S), z3.If(cond, boff, off))


def R_top(pdict, S):
    return R_body(pdict, S, z3.IntVal(0), [])
