"""Reference layout interpreter R (DESIGN 3.2), concrete form - the oracle for replays and
bounded checks.  Written from the statement of properties C03/C06/C09/C15, *not* from
rtcmmessage.py: it reads the payload as a bit string, not as one big integer, walks the
definition tables of the working tree in document order, and decodes each field by its
declared type.  It uses pyrtcm's *tables* (they are the definitions being interpreted) but
none of pyrtcm's code.

ref_decode(payload, labelmsm) -> ("ok", {name: value}) | ("error", reason)
"""
from spec.ident import ident as spec_ident

NA = "N/A"


class SpecError(Exception):
    pass


def tables():
    try:
        from pyvc import extract
        extract.ensure_path()
    except Exception:  # noqa
        pass
    import pyrtcm.rtcmtypes_core as core
    from pyrtcm.rtcmtypes_get import RTCM_PAYLOADS_GET
    from pyrtcm.rtcmtypes_get_igs import RTCM_PAYLOADS_GET_IGS
    from pyrtcm.rtcmtypes_get_msm import RTCM_PAYLOADS_GET_MSM
    from pyrtcm.rtcmtables import PRNSIGMAP
    return core, RTCM_PAYLOADS_GET, RTCM_PAYLOADS_GET_MSM, RTCM_PAYLOADS_GET_IGS, PRNSIGMAP


def lookup_definition(ident):
    core, g, m, i, _ = tables()
    hits = [t[ident] for t in (g, m, i) if ident in t]
    if len(hits) > 1:
        raise SpecError(f"identity {ident} defined in more than one table")
    return hits[0] if hits else None


class Bits:
    def __init__(self, payload):
        self.s = "".join(format(b, "08b") for b in payload)
        self.n = len(self.s)

    def field(self, off, width):
        if off + width > self.n:
            raise SpecError(f"field of {width} bits at offset {off} crosses the end of the payload ({self.n} bits)")
        return int(self.s[off:off + width], 2) if width else 0


def decode_value(typ, width, u):
    """unsigned bits u of a `width`-bit field -> value by declared data type (C03)."""
    if typ in ("UINT", "BIT", "BITX"):
        return u
    if typ == "INT":  # two's complement
        return u - (1 << width) if width and u >= (1 << (width - 1)) else u
    if typ == "SNT":  # sign-magnitude, MSB is the sign
        mag = u % (1 << (width - 1))
        return -mag if u >= (1 << (width - 1)) else mag
    if typ in ("CHA", "STR"):
        return chr(u)
    raise SpecError(f"unknown data type {typ}")


def scaled(v, res):
    return v if res in (0, 1) or isinstance(v, str) else v * res


def name_of(base, idx):
    return base + "".join("_%02d" % i for i in idx)


def popcount(u):
    return bin(u).count("1")


class Decoder:
    def __init__(self, payload, labelmsm=1):
        self.core, *_rest, self.prnsigmap = tables()
        self.payload = payload
        self.bits = Bits(payload)
        self.labelmsm = labelmsm
        self.attrs = {}
        self.priv = {}
        self.off = 0
        self.ident = spec_ident(payload)
        self.satmap = {}
        self.cellmap = {}

    # -- MSM maps (C09): i-th set bit MSB first; cells satellite-major
    def build_maps(self):
        prnmap, sigmap = self.prnsigmap[self.ident[0:3]]
        slot = 0 if self.labelmsm == 2 else 1
        sats = [prnmap.get(p, NA) for p in range(1, 65) if (self.attrs["DF394"] >> (64 - p)) & 1]
        sigs = []
        for q in range(1, 33):
            if (self.attrs["DF395"] >> (32 - q)) & 1:
                ent = sigmap.get(q)
                sigs.append(ent[slot] if ent is not None else NA)
        nsat, nsig = len(sats), len(sigs)
        self.satmap = {i + 1: p for i, p in enumerate(sats)}
        self.cellmap = {}
        k = 0
        for j in range(nsat * nsig):  # j-th bit of the cell mask, MSB first
            if (self.attrs["DF396"] >> (nsat * nsig - 1 - j)) & 1:
                k += 1
                self.cellmap[k] = (sats[j // nsig], sigs[j % nsig])

    def leaf(self, base, idx):
        core = self.core
        typ, width, res, _ = core.RTCM_DATA_FIELDS[base]
        if typ == "PRN":
            self.attrs[name_of(base, idx)] = self.satmap[idx[0]]
            return
        if typ == "CPR":
            self.attrs[name_of(base, idx)] = self.cellmap[idx[0]][0]
            return
        if typ == "CSG":
            self.attrs[name_of(base, idx)] = self.cellmap[idx[0]][1]
            return
        if base == "DF396":
            width = self.attrs["NSat"] * self.attrs["NSig"]
        u = self.bits.field(self.off, width)
        if getattr(self, "layout", None) is not None:
            self.layout.append((base, typ, self.off, width))
        self.off += width
        if typ == "STR":  # consecutive code units joined into one string attribute
            self.attrs[base] = self.attrs.get(base, "") + ("" if u == 0 else chr(u))
        else:
            self.attrs[name_of(base, idx)] = scaled(decode_value(typ, width, u), res)
        if base == "DF394":
            self.attrs["NSat"] = popcount(u)
        elif base == "DF395":
            self.attrs["NSig"] = popcount(u)
        elif base == "DF396":
            self.attrs["NCell"] = popcount(u)
            self.build_maps()
        elif base == "IDF038":
            i = idx[0]
            n = self.attrs["IDF037_%02d" % i] + 1  # degree
            m = self.attrs["IDF038_%02d" % i] + 1  # order
            nc = (n + 1) * (n + 2) // 2 - (n - m) * (n - m + 1) // 2
            self.priv["_NHarmCoeffC"] = nc
            self.priv["_NHarmCoeffS"] = nc - (n + 1)

    def count_of(self, cnt, idx):
        if isinstance(cnt, int):
            return cnt
        name = cnt
        if "+" in name:
            name, lvl = name.split("+")
            name = name_of(name, idx[:int(lvl)])
        if name in self.priv:
            return self.priv[name]
        if name not in self.attrs:
            raise SpecError(f"group count {name} not decoded yet")
        n = self.attrs[name]
        return n + 1 if name == "IDF035" else n

    def walk(self, d, idx):
        for key, adef in d.items():
            if isinstance(adef, tuple):
                cnt, sub = adef
                if isinstance(cnt, tuple):  # conditional group
                    cname, cval = cnt
                    if cname not in self.attrs:
                        raise SpecError(f"condition field {cname} not decoded yet")
                    if self.attrs[cname] == cval:
                        self.walk(sub, idx)
                else:
                    for i in range(1, self.count_of(cnt, idx) + 1):
                        self.walk(sub, idx + [i])
            else:
                self.leaf(key, idx)

    def run(self):
        d = lookup_definition(self.ident)
        if d is None:
            self.attrs["DF002"] = self.ident
            return self.attrs
        self.walk(d, [])
        return self.attrs


def field_layout(payload):
    """[(field, type, bit offset, width)] of every bit field the reference interpreter reads from this payload, or None."""
    try:
        dec = Decoder(payload, 1)
        dec.layout = []
        dec.run()
        return dec.layout
    except Exception:  # noqa
        return None


def ref_decode(payload, labelmsm=1):
    try:
        dec = Decoder(payload, labelmsm)
        return ("ok", dec.run(), dec.off)
    except (SpecError, IndexError, KeyError) as e:
        return ("error", f"{type(e).__name__}: {e}", None)
    except Exception as e:  # noqa  malformed definition table (not a dict / tuple shape): C10's WF obligation reports it
        return ("error", f"definition table malformed: {type(e).__name__}: {e}", None)


def real_decode(payload, labelmsm=1):
    """The real code on the same input, normalised the same way."""
    from pyrtcm import RTCMMessage
    from pyrtcm import exceptions as ex
    try:
        m = RTCMMessage(payload=payload, labelmsm=labelmsm)
    except (ex.RTCMMessageError, ex.RTCMTypeError) as e:
        return ("error", type(e).__name__, None)
    except BaseException as e:  # noqa  foreign exception: C04 violation
        return ("foreign", type(e).__name__ + ": " + str(e)[:100], None)
    return ("ok", {k: v for k, v in m.__dict__.items() if not k.startswith("_")}, m)


def compare(payload, labelmsm=1):
    """-> (agrees, expected, observed) for replay files."""
    exp = ref_decode(payload, labelmsm)
    obs = real_decode(payload, labelmsm)
    if exp[0] == "error":
        return obs[0] == "error", ("error", exp[1]), obs[:2]
    if obs[0] != "ok":
        return False, ("ok", "<%d attributes>" % len(exp[1])), obs[:2]
    if exp[1] != obs[1]:
        diff = {k: (exp[1].get(k, "<absent>"), obs[1].get(k, "<absent>")) for k in set(exp[1]) | set(obs[1])
                if exp[1].get(k, "<absent>") != obs[1].get(k, "<absent>")}
        first = dict(sorted(diff.items())[:6])
        return False, ("ok", {k: v[0] for k, v in first.items()}), ("ok", {k: v[1] for k, v in first.items()})
    if list(exp[1]) != list(obs[1]):
        return False, ("ok", "attribute order " + str(list(exp[1])[:8])), ("ok", "attribute order " + str(list(obs[1])[:8]))
    return True, ("ok", len(exp[1])), ("ok", len(obs[1]))
