"""Identity of a message = the transmitted message number (property C15), concrete oracle.
Written with integer arithmetic (// and %), not the shifts and masks the code uses."""


def ident(payload: bytes) -> str:
    if len(payload) < 2:
        raise IndexError("payload too short")
    mid = payload[0] * 16 + payload[1] // 16
    if mid == 4076:
        if len(payload) < 3:
            raise IndexError("payload too short for 4076 sub-type")
        sub = (payload[1] % 2) * 128 + payload[2] // 2
        return "4076_%03d" % sub
    return "%d" % mid
