"""Ground obligations over the working tree's definition tables (DESIGN 3.3, C10, C09, C16,
C19): closed terms, discharged by evaluation, each reported with its failing entry."""
import re

from spec import pinned

KNOWN_TYPES = {"BIT", "BITX", "CHA", "STR", "INT", "UINT", "SNT", "PRN", "CPR", "CSG"}
DERIVED_COUNTS = {"NSat", "NSig", "NCell", "_NHarmCoeffC", "_NHarmCoeffS"}


def T():
    from pyvc import extract
    extract.ensure_path()
    import pyrtcm.rtcmtypes_core as core
    from pyrtcm.rtcmtypes_get import RTCM_PAYLOADS_GET as g
    from pyrtcm.rtcmtypes_get_igs import RTCM_PAYLOADS_GET_IGS as i
    from pyrtcm.rtcmtypes_get_msm import RTCM_PAYLOADS_GET_MSM as m
    from pyrtcm.rtcmtables import PRNSIGMAP
    return core, g, m, i, PRNSIGMAP


def all_defs():
    core, g, m, i, _ = T()
    out = {}
    for t in (g, m, i):
        out.update(t)
    return out


# ---------------------------------------------------------------------------------------
def wf_check(ident, d, DF):
    """WF(pdict): every key is a defined data field or a well-shaped group whose count/condition
    names a field decoded EARLIER in document order; depth <= 2; all containers are dicts/tuples."""
    problems = []
    seen = []  # field names decoded so far, in order (base names; '+n' resolved structurally)

    def walk(dd, depth, path):
        if not isinstance(dd, dict):
            problems.append(f"{path}: definition is a {type(dd).__name__}, not a dict")
            return
        if depth > 2:
            problems.append(f"{path}: nesting depth {depth} > 2")
        for k, v in dd.items():
            if isinstance(v, tuple):
                if len(v) != 2:
                    problems.append(f"{path}/{k}: group tuple of length {len(v)}")
                    continue
                cnt, sub = v
                if isinstance(cnt, tuple):
                    if len(cnt) != 2 or not isinstance(cnt[0], str):
                        problems.append(f"{path}/{k}: malformed condition {cnt!r}")
                    elif cnt[0] not in seen:
                        problems.append(f"{path}/{k}: condition refers to {cnt[0]} which is not decoded earlier")
                    walk(sub, depth, f"{path}/{k}")
                    continue
                if isinstance(cnt, bool) or not isinstance(cnt, (int, str)):
                    problems.append(f"{path}/{k}: count {cnt!r} is neither int nor field name")
                elif isinstance(cnt, int):
                    if cnt < 0:
                        problems.append(f"{path}/{k}: negative count")
                else:
                    base = cnt.split("+")[0]
                    if "+" in cnt:
                        lvl = cnt.split("+")[1]
                        if not lvl.isdigit() or int(lvl) > depth:
                            problems.append(f"{path}/{k}: '+n' suffix {cnt!r} exceeds the nesting depth {depth}")
                    if base in DERIVED_COUNTS:
                        src = {"NSat": "DF394", "NSig": "DF395", "NCell": "DF396", "_NHarmCoeffC": "IDF038", "_NHarmCoeffS": "IDF038"}[base]
                        if src not in seen:
                            problems.append(f"{path}/{k}: derived count {base} used before {src} is decoded")
                    elif base not in seen:
                        problems.append(f"{path}/{k}: count refers to {base} which is not decoded earlier")
                    elif base in DF and DF[base][0] not in ("UINT", "BIT", "BITX"):
                        problems.append(f"{path}/{k}: count field {base} is of type {DF[base][0]}")
                walk(sub, depth + 1, f"{path}/{k}")
            else:
                if not isinstance(v, str):
                    problems.append(f"{path}/{k}: description is {type(v).__name__}")
                if k not in DF:
                    problems.append(f"{path}/{k}: not a defined data field")
                else:
                    e = DF[k]
                    if not (isinstance(e, tuple) and len(e) == 4 and e[0] in KNOWN_TYPES and isinstance(e[1], int) and e[1] >= 0
                            and isinstance(e[2], (int, float)) and not isinstance(e[2], bool) and isinstance(e[3], str)):
                        problems.append(f"{path}/{k}: malformed data field entry {e!r}")
                    elif e[0] in ("INT", "SNT") and e[1] < 2:
                        problems.append(f"{path}/{k}: signed field of width {e[1]}")
                seen.append(k)
    walk(d, 0, ident)
    return problems


def wf_lemmas():
    core, g, m, i, _ = T()
    out = []
    for ident, d in all_defs().items():
        pr = wf_check(ident, d, core.RTCM_DATA_FIELDS)
        out.append((f"tables.WF[{ident}]", not pr, {"problems": pr[:4]}))
    for k, e in core.RTCM_DATA_FIELDS.items():
        ok = isinstance(e, tuple) and len(e) == 4 and e[0] in KNOWN_TYPES and isinstance(e[1], int) and isinstance(e[3], str)
        if not ok:
            out.append((f"tables.data_field_entry_wellformed[{k}]", False, {"entry": repr(e)}))
    out.append(("tables.data_field_entries_wellformed", True, {"n": len(core.RTCM_DATA_FIELDS)}))
    return out


# ---------------------------------------------------------------------------------------
def layout(d, DF):
    """(header_bits, [(count, block_bits, [(inner_count, inner_bits)])]) of a definition."""
    fixed = 0
    groups = []
    for k, v in d.items():
        if isinstance(v, tuple):
            cnt, sub = v
            f2, g2 = layout(sub, DF)
            name = ("if " + cnt[0]) if isinstance(cnt, tuple) else str(cnt)
            groups.append((name, f2, [(n, b) for n, b, _ in g2]))
        else:
            fixed += DF[k][1]
    return fixed, groups


def length_lemmas():
    core, g, m, i, _ = T()
    DF = core.RTCM_DATA_FIELDS
    out = []
    for ident, d in list(g.items()) + list(i.items()):
        if ident not in pinned.LENGTHS:
            out.append((f"tables.length_formula_pinned[{ident}]", False, {"problem": "identity has no pinned length formula"}))
            continue
        hb, groups, prov = pinned.LENGTHS[ident]
        try:
            got = layout(d, DF)
        except Exception as e:  # noqa
            out.append((f"tables.length[{ident}]", False, {"problem": repr(e)}))
            continue
        exp = (hb, [(n, b, list(inner)) for n, b, inner in groups])
        out.append((f"tables.length[{ident}]", got == exp, {"expected": str(exp), "tree": str(got), "provenance": prov}))
    for ident, d in m.items():
        level = int(ident[3]) if len(ident) == 4 and ident.isdigit() else -1
        if level not in pinned.MSM_SAT_BITS or ident[:3] not in pinned.MSM_EPOCH:
            out.append((f"tables.length[{ident}]", False, {"problem": "MSM definition keyed by a number that is not MSM1-7 of one of the seven constellations"}))
            continue
        try:
            hb, groups = layout(d, DF)
        except Exception as e:  # noqa
            out.append((f"tables.length[{ident}]", False, {"problem": repr(e)}))
            continue
        sat = sum(b for n, b, inner in groups if n == "NSat")
        cell = sum(b for n, b, inner in groups if n == "NCell")
        other = [x for x in groups if x[0] not in ("NSat", "NCell") or x[2]]
        ok = hb == pinned.MSM_HEADER and sat == pinned.MSM_SAT_BITS[level] and cell == pinned.MSM_CELL_BITS[level] and not other
        out.append((f"tables.length[{ident}]", ok, {"header": hb, "per_sat": sat, "per_cell": cell, "expected": (
            pinned.MSM_HEADER, pinned.MSM_SAT_BITS[level], pinned.MSM_CELL_BITS[level]), "provenance": pinned.STD}))
    return out


def identity_set_lemmas():
    """The set of message numbers with a payload definition is the standard's (pinned) set: a definition keyed by a neighbouring
    number turns a reserved number into a decoded type and a defined type into a stub (C15: 'implemented types', 'numbers without a
    payload definition')."""
    core, g, m, i, _ = T()
    out = []
    std = set(pinned.LENGTHS) | {f"{p}{lvl}" for p in pinned.MSM_EPOCH for lvl in pinned.MSM_SAT_BITS}
    tree = set(g) | set(m) | set(i)
    for ident in sorted(std - tree):
        out.append((f"tables.identity_defined[{ident}]", False, {"problem": "the standard defines this type; the tree has no payload definition for it"}))
    for ident in sorted(tree - std):
        out.append((f"tables.identity_is_a_standard_type[{ident}]", False, {"problem": "payload definition for a number the pinned standard tables do not define"}))
    for ident in sorted(m):
        inmsg = ident in core.RTCM_MSGIDS and "MSM" in core.RTCM_MSGIDS[ident]
        out.append((f"tables.msm_type_is_described_as_MSM[{ident}]", inmsg, {"description": core.RTCM_MSGIDS.get(ident)}))
    out.append(("tables.identity_set_is_the_standard_set", not (std ^ tree), {"standard": len(std), "tree": len(tree)}))
    return out


def _poly(hb, groups):
    """length formula as {monomial (sorted tuple of counter names): coefficient}"""
    p = {(): hb}
    for n, b, inner in groups:
        p[(n,)] = p.get((n,), 0) + b
        for n2, b2 in inner:
            k = tuple(sorted((n, n2)))
            p[k] = p.get(k, 0) + b2
    return p


def no_longer_than_standard_lemmas():
    """C02 ('no valid frame is lost'): for no values of its repeat counts does a definition require MORE bits than the standard
    assigns to a message of that type - otherwise a standard-conformant frame (padded to a byte boundary, i.e. at most 7 spare
    bits) is over-read, refused and dropped.  Coefficient-wise comparison of the two length polynomials; a definition that needs
    FEWER bits loses no frame (that is C03/C06/C10's business) and passes here."""
    core, g, m, i, _ = T()
    DF = core.RTCM_DATA_FIELDS
    out = []
    for ident, d in list(g.items()) + list(i.items()):
        if ident not in pinned.LENGTHS:
            continue  # a definition the standard tables do not list: nothing to lose (C10 reports it)
        hb, groups, prov = pinned.LENGTHS[ident]
        try:
            ghb, ggroups = layout(d, DF)
        except Exception as e:  # noqa
            out.append((f"tables.needs_no_more_bits_than_standard[{ident}]", False, {"problem": repr(e)}))
            continue
        std, tree = _poly(hb, [(n, b, list(inner)) for n, b, inner in groups]), _poly(ghb, ggroups)
        excess = {k: v - std.get(k, 0) for k, v in tree.items() if v > std.get(k, 0) and (k != () or v - std.get(k, 0) >= 8)}
        out.append((f"tables.needs_no_more_bits_than_standard[{ident}]", not excess,
                    {"excess_bits_per_unit_of": {" x ".join(k) or "1": v for k, v in excess.items()}, "standard": str(std), "tree": str(tree), "provenance": prov}))
    for ident, d in m.items():
        level = int(ident[3]) if len(ident) == 4 and ident.isdigit() else -1
        if level not in pinned.MSM_SAT_BITS:
            continue
        try:
            hb, groups = layout(d, DF)
        except Exception as e:  # noqa
            out.append((f"tables.needs_no_more_bits_than_standard[{ident}]", False, {"problem": repr(e)}))
            continue
        sat = sum(b for n, b, inner in groups if n == "NSat")
        cell = sum(b for n, b, inner in groups if n == "NCell")
        other = [x for x in groups if x[0] not in ("NSat", "NCell") or x[2]]
        ok = hb < pinned.MSM_HEADER + 8 and sat <= pinned.MSM_SAT_BITS[level] and cell <= pinned.MSM_CELL_BITS[level] and not other
        out.append((f"tables.needs_no_more_bits_than_standard[{ident}]", ok, {"header": hb, "per_sat": sat, "per_cell": cell, "standard": (
            pinned.MSM_HEADER, pinned.MSM_SAT_BITS[level], pinned.MSM_CELL_BITS[level])}))
    return out


# ---------------------------------------------------------------------------------------
def block_fields(d):
    """[(field sequence of the top level), (field sequence of each group)]"""
    top = [k for k, v in d.items() if not isinstance(v, tuple)]
    groups = [[k for k, v2 in v[1].items() if not isinstance(v2, tuple)] for k, v in d.items() if isinstance(v, tuple)]
    return top, groups


def sibling_lemmas():
    core, g, m, i, _ = T()
    defs = all_defs()
    out = []
    for comb, a, b in pinned.SSR_COMBINED:
        try:
            ga, gb, gc = block_fields(defs[a])[1][0], block_fields(defs[b])[1][0], block_fields(defs[comb])[1][0]
            exp = ga + gb[1:]  # second block without its satellite-ID field
            ok = gc == exp and ga[0] == gb[0] == gc[0]
            out.append((f"tables.sibling.combined_block_is_orbit_then_clock[{comb}={a}+{b}]", ok, {"combined": gc, "expected": exp}))
        except Exception as e:  # noqa
            out.append((f"tables.sibling.combined_block_is_orbit_then_clock[{comb}={a}+{b}]", False, {"problem": repr(e)}))
    for ext, bas in pinned.EXTENDED_CONTAINS_BASIC:
        try:
            te, ge = block_fields(defs[ext])
            tb, gb = block_fields(defs[bas])
            it = iter(ge[0])
            sub = all(any(x == y for y in it) for x in gb[0])  # order-preserving containment
            ok = te == tb and sub
            out.append((f"tables.sibling.extended_contains_basic[{ext}>={bas}]", ok, {"extended": ge[0], "basic": gb[0]}))
        except Exception as e:  # noqa
            out.append((f"tables.sibling.extended_contains_basic[{ext}>={bas}]", False, {"problem": repr(e)}))
    # one MSM layout per level across the constellations, modulo the epoch field and the GLONASS 4-bit slot
    def norm(seq, prefix):
        # the 30-bit epoch slot: one field, or for GLONASS day-of-week DF416 (3) + DF034 (27)
        seq = [k for k in seq if not (prefix == "108" and k == "DF416")]
        return ["<epoch>" if k == pinned.MSM_EPOCH[prefix] else "<4bit-slot>" if k in ("DF419", "ExtSatInfo") else k for k in seq]
    for level in range(1, 8):
        ref = None
        for prefix in sorted(pinned.MSM_EPOCH):
            ident = f"{prefix}{level}"
            if ident not in m:
                out.append((f"tables.sibling.msm_level_layout[{ident}]", False, {"problem": "not implemented"}))
                continue
            try:
                top, groups = block_fields(m[ident])
                cur = (norm(top, prefix), [norm(x, prefix) for x in groups], [v[0] for v in m[ident].values() if isinstance(v, tuple)])
            except Exception as e:  # noqa
                out.append((f"tables.sibling.msm_level_layout[{ident}]", False, {"problem": repr(e)}))
                continue
            if ref is None:
                ref = cur
            out.append((f"tables.sibling.msm_level_layout[{ident}]", cur == ref, {"layout": str(cur)[:300], "reference": str(ref)[:300]}))
    return out


# ---------------------------------------------------------------------------------------
def msm_table_lemmas():
    core, g, m, i, PRNSIGMAP = T()
    out = []
    for prefix in sorted(pinned.MSM_SIG):
        if prefix not in PRNSIGMAP:
            out.append((f"tables.msm.constellation_present[{prefix}]", False, {}))
            continue
        prnmap, sigmap = PRNSIGMAP[prefix]
        bad = [(q, sigmap.get(q), pinned.MSM_SIG[prefix].get(q)) for q in range(1, 33)
               if (tuple(sigmap[q]) if q in sigmap and isinstance(sigmap[q], (tuple, list)) else sigmap.get(q)) != pinned.MSM_SIG[prefix].get(q)]
        out.append((f"tables.msm.signal_ids_are_RINEX_codes_of_the_standard[{prefix}]", not bad, {"differences(id, tree, standard)": bad[:4]}))
        badp = [(p, prnmap.get(p, "N/A"), pinned.prn_label(prefix, p)) for p in range(1, 65) if prnmap.get(p, "N/A") != pinned.prn_label(prefix, p)]
        out.append((f"tables.msm.satellite_ids_are_PRNs_of_the_standard[{prefix}]", not badp, {"differences(id, tree, standard)": badp[:4]}))
        out.append((f"tables.msm.no_keys_outside_mask_range[{prefix}]", all(isinstance(k, int) and 1 <= k <= 64 for k in prnmap)
                    and all(isinstance(k, int) and 1 <= k <= 32 for k in sigmap), {}))
        ep = core.GNSSMAP.get(prefix, (None, None))[1]
        out.append((f"tables.msm.epoch_field[{prefix}]", ep == pinned.MSM_EPOCH[prefix], {"tree": ep, "standard": pinned.MSM_EPOCH[prefix]}))
    out.append(("tables.msm.not_available_marker", core.NA == "N/A", {"NA": core.NA}))
    # structure the proofs rely on
    for ident, d in m.items():
        keys = list(d)
        try:
            j = keys.index("DF394")
            ok = keys[j:j + 3] == ["DF394", "DF395", "DF396"]
        except ValueError:
            ok = False
        out.append((f"tables.msm.masks_consecutive_in_order[{ident}]", ok, {"keys": keys[:14]}))
        grp = [(k, v[0], list(v[1])) for k, v in d.items() if isinstance(v, tuple)]
        lead_sat = next((x for x in grp if x[1] == "NSat"), None)
        lead_cell = next((x for x in grp if x[1] == "NCell"), None)
        ok2 = lead_sat is not None and lead_sat[2] == ["PRN"] and lead_cell is not None and lead_cell[2] == ["CELLPRN", "CELLSIG"]
        out.append((f"tables.msm.derived_labels_lead_their_groups[{ident}]", ok2, {"groups": str(grp)[:200]}))
    derived = {"PRN", "CELLPRN", "CELLSIG", "DF394", "DF395", "DF396"}
    for ident, d in list(g.items()) + list(i.items()):
        used = set()

        def walk(dd):
            for k, v in dd.items():
                if isinstance(v, tuple):
                    walk(v[1])
                else:
                    used.add(k)
        try:
            walk(d)
        except Exception:  # noqa
            continue
        out.append((f"tables.non_msm_definition_has_no_msm_fields[{ident}]", not (used & derived), {"found": sorted(used & derived)}))
    return out


# ---------------------------------------------------------------------------------------
def naming_lemmas():
    """Facts the attribute-name model rests on (DESIGN 1.5-2, C19)."""
    core, g, m, i, _ = T()
    bases = set(core.RTCM_DATA_FIELDS) | {"NSat", "NSig", "NCell"}
    out = []
    clash = [(b, b2) for b in bases for b2 in bases if b != b2 and re.fullmatch(re.escape(b2) + r"(_\d{2,})+", b)]
    out.append(("names.render_injective_no_base_is_another_base_plus_index", not clash, {"clashes": clash[:4]}))
    bad = [n for n in range(0, 4096) if not (re.fullmatch(r"\d{2,}", "%02d" % n) and int("%02d" % n) == n and "_" not in "%02d" % n)]
    out.append(("names.two_digit_format_is_digits_only_and_invertible[0..4095]", not bad, {"bad": bad[:4]}))
    inj = len({"%02d" % n for n in range(4096)}) == 4096
    out.append(("names.two_digit_format_is_injective[0..4095]", inj, {}))
    return out


def producible_names():
    """{(base, depth)} for every leaf occurrence in the tables (STR fields are never indexed)."""
    core, g, m, i, _ = T()
    out = set()

    def walk(d, depth):
        for k, v in d.items():
            if isinstance(v, tuple):
                cnt, sub = v
                walk(sub, depth if isinstance(cnt, tuple) else depth + 1)
            else:
                typ = core.RTCM_DATA_FIELDS[k][0] if k in core.RTCM_DATA_FIELDS else None
                out.add((k, 0 if typ == "STR" else depth))
    for d in all_defs().values():
        if isinstance(d, dict):
            try:
                walk(d, 0)
            except Exception:  # noqa
                pass
    return out


# ---------------------------------------------------------------------------------------
def field_entry_lemmas():
    """Data type, width and resolution of every data field as pinned (spec/pinned_fields.json, recorded from the tree when the
    framework was built - no independent source offline; detects later edits), and - independently of any transcription - every
    module constant called P2_<n> / P2_P<n> is exactly 2**-n / 2**n (the resolutions are written as decimal literals)."""
    import json, os, re
    core = T()[0]
    pin = json.load(open(os.path.join(os.path.dirname(os.path.abspath(__file__)), "pinned_fields.json")))
    out = []
    DF = core.RTCM_DATA_FIELDS
    bad = []
    for k, (typ, width, res) in pin["fields"].items():
        e = DF.get(k)
        ok = e is not None and e[0] == typ and e[1] == width and e[2] == res
        if not ok:
            out.append((f"tables.field_entry_as_pinned[{k}]", False, {"pinned": [typ, width, res], "tree": list(e[:3]) if e else None,
                                                                   "provenance": pin["provenance"]}))
    out.append(("tables.field_entries_as_pinned", not any(not o[1] for o in out), {"n": len(pin["fields"])}))
    for k, v in pin["constants"].items():
        out.append((f"api.constant[{k}]", getattr(core, k, None) == v, {"pinned": v, "tree": getattr(core, k, None)}))
    for name in dir(core):
        m = re.fullmatch(r"P2_(P?)(\d+)", name)
        if m:
            want = 2.0 ** int(m.group(2)) if m.group(1) else 2.0 ** -int(m.group(2))
            out.append((f"tables.power_of_two_constant[{name}]", getattr(core, name) == want, {"tree": repr(getattr(core, name)), "exact": repr(want)}))
    return out
