"""Closed obligations about the public call signatures (DESIGN 11.7 round 4).

Contracts bind arguments by parameter name; callers of a public entry point may bind them by position.  For the functions whose
options a property quantifies over, the pinned parameters must therefore still stand at their pinned positions with their pinned
defaults (further parameters appended after them, with defaults, change nothing for existing callers and are allowed)."""
import ast

from pyvc import extract


def signature_lemmas(qualnames):
    def run():
        pins = extract.pinned_locals()
        out = []
        for q in qualnames:
            pin = pins.get(q)
            if not pin or "params" not in pin:
                out.append((f"api.signature_pinned[{q}]", False, {"problem": "no pinned signature"}))
                continue
            try:
                fi = extract.func(q)
            except KeyError:
                out.append((f"api.signature[{q}]", False, {"problem": "function not found"}))
                continue
            cur = fi.params
            dfl = {k: ast.unparse(v) for k, v in fi.defaults.items()}
            n = len(pin["params"])
            same_prefix = cur[:n] == pin["params"]
            same_defaults = all(dfl.get(p) == pin["defaults"].get(p) for p in pin["params"])
            extra_have_defaults = all(p in dfl for p in cur[n:])
            ok = same_prefix and same_defaults and extra_have_defaults
            out.append((f"api.signature[{q}]", ok, {"pinned": [f"{p}={pin['defaults'][p]}" if p in pin["defaults"] else p for p in pin["params"]],
                                                     "tree": [f"{p}={dfl[p]}" if p in dfl else p for p in cur]}))
        return out
    return run
