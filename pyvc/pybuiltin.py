"""Models of the Python builtins and methods pyrtcm uses (DESIGN 1.3, assumptions 1.5)."""
from __future__ import annotations

import ast
import z3

from pyvc import ops
from pyvc.ops import Cases, bytes_len, const_int, norm, seg_item, seg_len
from pyvc.state import determined_int, entails, to_bits
from pyvc.values import (
    CHR, EngineUnsupported, ExcValue, Fmt, HDict, HList, HMap, HObject, HSeq, HRecSeq, hmap_from_dict, _zstr_val, _term_of, _kind_of, Items, RaiseExc, Ref,
    SBits, SBool, SBytes, SInt, SOpaque, SPayInt, SSlice, SStr, Sym, UNDEF, View, as_sbytes,
    bool_term, fresh_name, int_term, zand, znot, zor,
)


def call(eng, st, f, args, kwargs):
    from pyvc.symex import SRange, SuperProxy, _NODEFAULT
    args = [norm(a) for a in args]
    if f is len:
        (x,) = args
        if isinstance(x, (SBytes,)):
            return norm(SInt(bytes_len(x)))
        if isinstance(x, Ref):
            o = st.obj(x)
            if isinstance(o, HList):
                return len(o.items)
            if isinstance(o, HDict):
                return len(o.d)
            if isinstance(o, HSeq):
                return norm(SInt(o.n))
        if isinstance(x, SStr):
            raise EngineUnsupported("len of symbolic str")
        return len(x)
    import io as _io
    import zlib as _zlib
    if f is _io.BytesIO:
        return _AsOutcomes(eng.call_qual("ext.BytesIO", st, None, args, kwargs, None))
    if f is _zlib.decompress:
        return _AsOutcomes(eng.call_qual("ext.zlib.decompress", st, None, args, kwargs, None))
    if getattr(f, "__module__", None) == "logging" and getattr(f, "__name__", None) == "getLogger":
        from pyvc.symex import LoggerVal
        return LoggerVal()
    if f in (max, min) and len(args) == 2 and all(isinstance(a, (int, SInt, SBits)) for a in args) and not kwargs:
        if all(isinstance(a, int) for a in args):
            return f(*args)
        ta, tb = int_term(args[0]), int_term(args[1])
        return SInt(z3.If(ta >= tb, ta, tb) if f is max else z3.If(ta <= tb, ta, tb))
    if f is bool:
        t = ops.truth(st, args[0]) if args else False
        return t if isinstance(t, bool) else norm(SBool(t))
    if f is range:
        if all(isinstance(a, int) for a in args):
            return range(*args)
        if len(args) == 1:
            return SRange(0, args[0])
        if len(args) == 2:
            return SRange(args[0], args[1])
        if len(args) == 3 and isinstance(args[2], int) and args[2] == 1:
            return SRange(args[0], args[1])
        raise EngineUnsupported("range with step")
    if f is isinstance:
        x, cls = args
        return py_isinstance(st, x, cls)
    if f is type and len(args) == 1:
        o = args[0]
        if isinstance(o, Ref) and isinstance(st.obj(o), HObject) and getattr(st.obj(o), "pycls", None) not in (None, object):
            return st.obj(o).pycls  # the real class object of the tree under verification
        raise EngineUnsupported(f"type() of {o!r}")
    if f is getattr:
        o, name = args[0], args[1]
        default = args[2] if len(args) > 2 else _NODEFAULT
        if isinstance(o, Ref) and isinstance(st.obj(o), HObject):
            return _AsOutcomes(eng.obj_getattr(st, o, st.obj(o), name, default))
        if isinstance(o, type) and getattr(o, "__module__", "").startswith("pyrtcm") and isinstance(norm(name), str):
            # class-level lookup on a real class of the tree: only descriptors / functions / absence are passed on (no data)
            v = getattr(o, norm(name), default)
            if v is _NODEFAULT:
                return Cases([(True, RaiseExc(AttributeError, norm(name)))])
            if v is default or isinstance(v, property) or callable(v):
                return v
            raise EngineUnsupported(f"class attribute {o.__name__}.{norm(name)} holding data")
        raise EngineUnsupported(f"getattr on {o!r}")
    if f is hasattr:
        o, name = args
        if isinstance(o, Ref) and isinstance(st.obj(o), HObject):
            outs = eng.obj_getattr(st, o, st.obj(o), name, _HASNOT)
            return _AsOutcomes([(s, (v is not _HASNOT) if not isinstance(v, RaiseExc) else v) for s, v in outs])
        raise EngineUnsupported(f"hasattr on {o!r}")
    if f is setattr:
        o, name, v = args
        return _AsOutcomes(eng.set_attr(st, o, name, v))
    if f is super:
        return SuperProxy(st.env.get("self"))
    if f is int:
        return py_int(eng, st, args)
    if f is str:
        (x,) = args
        if isinstance(x, (str, SStr)):
            return x
        if isinstance(x, int):
            return str(x)
        if isinstance(x, (SInt, SBits)):
            c = determined_int(st.pc, int_term(x))
            return str(c) if c is not None else SStr([Fmt("d", x)])
        if isinstance(x, SOpaque) and x.kind == "str":
            return x
        return "<?>"
    if f is chr:
        (x,) = args
        if isinstance(x, int):
            try:
                return chr(x)
            except (ValueError, OverflowError) as e:
                return Cases([(True, RaiseExc(type(e), str(e)))])
        t = int_term(x)
        ok = z3.And(t >= 0, t < 0x110000)
        return Cases([(ok, SOpaque("str", CHR(t))), (z3.Not(ok), RaiseExc(ValueError, "chr() arg not in range"))])
    if f is bin:
        (x,) = args
        if isinstance(x, int):
            return bin(x)
        return _BinStr(x)
    if f is tuple:
        (x,) = args if args else ((),)
        if isinstance(x, Ref) and isinstance(st.obj(x), HList):
            return tuple(st.obj(x).items)
        return tuple(x)
    if f is bytes:
        (x,) = args
        if isinstance(x, SBytes):
            return norm(SBytes(x.segs, mutable=False))
        if _has_sym(x):
            raise EngineUnsupported("bytes() of a container holding symbolic values")
        return bytes(x)
    if f is bytearray:
        if not args:
            return SBytes([], mutable=True)
        raise EngineUnsupported("bytearray(x)")
    if f is enumerate:
        raise EngineUnsupported("enumerate")
    if isinstance(f, type) and issubclass(f, BaseException):
        return ExcValue(f, args[0] if args else None)
    if callable(f) and not any(_has_sym(a) for a in args) and not any(_has_sym(a) for a in kwargs.values()) and getattr(f, "__module__", "") in ("builtins",):
        try:
            return f(*args, **kwargs)
        except Exception as e:  # noqa
            return Cases([(True, RaiseExc(type(e), str(e)))])
    raise EngineUnsupported(f"call of {f!r}")


def _has_sym(x):
    if isinstance(x, (Sym, Ref)):
        return True
    if isinstance(x, (tuple, list, set, frozenset)):
        return any(_has_sym(y) for y in x)
    if isinstance(x, dict):
        return any(_has_sym(k) or _has_sym(v) for k, v in x.items())
    return False


class _HasNot:
    pass


_HASNOT = _HasNot()


class _AsOutcomes(Cases):
    """Already-expanded outcomes [(state, value)] from a nested engine call."""

    def __init__(self, outs):
        self.outs = outs
        self.cases = None


class _BinStr(Sym):
    def __init__(self, v):
        self.v = v


def py_isinstance(st, x, cls):
    if isinstance(x, (Sym, Ref)):
        classes = cls if isinstance(cls, tuple) else (cls,)
        kinds = set()
        if isinstance(x, (SInt, SBits)):
            kinds = {int}
        elif isinstance(x, SBool):
            kinds = {bool, int}
        elif isinstance(x, SStr) or (isinstance(x, SOpaque) and x.kind == "str"):
            kinds = {str}
        elif isinstance(x, SBytes):
            kinds = {bytearray} if x.mutable else {bytes}
        elif isinstance(x, SOpaque) and x.kind == "float":
            kinds = {float}
        elif isinstance(x, Ref):
            o = st.obj(x)
            kinds = {list} if isinstance(o, HList) else {dict} if isinstance(o, (HDict, HMap)) else set()
            if isinstance(o, HObject):
                pc = getattr(o, "pycls", None)
                if o.cls == "ext.Stream":
                    # a caller-supplied file-like object: known not to be a socket (that is the other constructor branch), otherwise
                    # of unknown class - it may or may not be an io.RawIOBase, a BufferedReader, seekable ...
                    import socket as _socket
                    if all(c is _socket.socket or c is object for c in classes):
                        return any(c is object for c in classes)
                    from pyvc.values import fresh_name
                    return SBool(z3.Bool(fresh_name("stream_isinstance")))
                if pc is None:
                    return False if all(c in (int, str, bytes, tuple, list, dict, float, bool) for c in classes) else _unsupported("isinstance on ghost object")
                return issubclass(pc, classes)
        else:
            raise EngineUnsupported(f"isinstance of {x!r}")
        return any(issubclass(k, classes) for k in kinds)
    return isinstance(x, cls)


def _unsupported(msg):
    raise EngineUnsupported(msg)


def py_int(eng, st, args):
    x = args[0]
    if len(args) == 1:
        if isinstance(x, (int, SInt, SBits)):
            return x
        if isinstance(x, SOpaque) and x.kind == "real":
            # int(real): truncation toward zero
            r = x.t
            fl = z3.ToInt(r)
            return SInt(z3.If(r >= 0, fl, z3.If(z3.ToReal(fl) == r, fl, fl + 1)))
        if isinstance(x, SStr):
            # int() of "<digits from Fmt>" : DESIGN 1.5-2  int(f"{i:02d}") == i
            if len(x.segs) == 1 and isinstance(x.segs[0], Fmt):
                return x.segs[0].v
            return _int_of_pattern(st, x)
        if isinstance(x, (str, float)):
            try:
                return int(x)
            except ValueError as e:
                return Cases([(True, RaiseExc(ValueError, str(e)))])
    if len(args) == 2 and isinstance(x, SBytes) and args[1] == 16 and len(x.segs) == 1 and isinstance(x.segs[0], View):
        # int(line.strip(), 16): an uninterpreted function of the line's bytes (DESIGN C12), may raise ValueError
        v = x.segs[0]
        ok = z3.Function(f"HexOK_{v.arr.name}", z3.IntSort(), z3.IntSort(), z3.BoolSort())(v.lo, v.hi)
        val = z3.Function(f"HexVal_{v.arr.name}", z3.IntSort(), z3.IntSort(), z3.IntSort())(v.lo, v.hi)
        return Cases([(ok, SInt(val)), (z3.Not(ok), RaiseExc(ValueError, "invalid literal for int() with base 16"))])
    if len(args) == 2 and isinstance(x, (str, bytes)) and isinstance(args[1], int):
        try:
            return int(x, args[1])
        except ValueError as e:
            return Cases([(True, RaiseExc(ValueError, str(e)))])
    raise EngineUnsupported(f"int{tuple(args)!r}")


def _int_of_pattern(st, x):
    raise EngineUnsupported(f"int() of {x!r}")


# ----------------------------------------------------------------------------------------
def method(eng, st, recv, name, args, kwargs):
    from pyvc.symex import SuperProxy
    args = [norm(a) for a in args]
    recv = norm(recv)
    if isinstance(recv, SuperProxy):
        if name == "__setattr__":
            return _AsOutcomes(eng.set_attr(st, recv.selfv, args[0], args[1], plain=True))
        raise EngineUnsupported(f"super().{name}")
    if isinstance(recv, Ref):
        o = st.obj(recv)
        if isinstance(o, HList):
            if name == "append":
                o.items.append(args[0])
                st.writes.add((recv.oid, "items"))
                return None
            if name == "pop" and not args:
                if not o.items:
                    return Cases([(True, RaiseExc(IndexError, "pop from empty list"))])
                st.writes.add((recv.oid, "items"))
                return o.items.pop()
        if isinstance(o, HSeq) and name == "append":
            o.arr = z3.Store(o.arr, o.n, _term_of(o.kind, args[0]))
            o.n = z3.simplify(o.n + 1)
            st.writes.add((recv.oid, "items"))
            return None
        if isinstance(o, HRecSeq) and name == "append":
            d = st.obj(args[0]) if isinstance(args[0], Ref) else None
            if not isinstance(d, HDict):
                raise EngineUnsupported("append of a non-dict to a record sequence")
            keys = tuple(d.d)
            if o.keys is None:
                o.keys = keys
                for k in keys:
                    o.kinds[k] = _kind_of(d.d[k])
                    from pyvc.values import _default_term
                    o.arrs[k] = z3.K(z3.IntSort(), _default_term(o.kinds[k]))
            if keys != o.keys:
                raise EngineUnsupported(f"record with keys {keys} appended to a sequence of records with keys {o.keys}")
            for k in keys:
                o.arrs[k] = z3.Store(o.arrs[k], o.n, _term_of(o.kinds[k], d.d[k]))
            o.n = z3.simplify(o.n + 1)
            st.writes.add((recv.oid, "items"))
            return None
        if isinstance(o, HDict):
            if name == "get":
                return o.d.get(args[0], args[1] if len(args) > 1 else None)
        raise EngineUnsupported(f"method {name} on heap object")
    if isinstance(recv, dict):
        if name == "get":
            return dict_get(st, recv, args[0], args[1] if len(args) > 1 else None)
        if name == "values":
            return list(recv.values())
        if name == "keys":
            return list(recv.keys())
        if name == "items":
            return list(recv.items())
    if recv is int and name == "from_bytes":
        return int_from_bytes(eng, st, args, kwargs)
    if isinstance(recv, (int, SInt, SBits)) and name == "to_bytes":
        return int_to_bytes(eng, st, recv, args, kwargs)
    if isinstance(recv, str) and name == "format" and (any(isinstance(a, (Sym, Ref)) for a in args) or any(isinstance(a, (Sym, Ref)) for a in kwargs.values())):
        # '...{}...{name}...'.format(symbolic values): the same pieces an f-string would give (simple fields only)
        import string
        if any(type(a).__name__ == "ExternalValue" for a in list(args) + list(kwargs.values())):
            raise EngineUnsupported("str.format of a caller-supplied value")
        segs, auto = [], 0
        for lit, field, spec, conv in string.Formatter().parse(recv):
            if lit:
                segs.append(lit)
            if field is None:
                continue
            if field == "":
                if auto >= len(args):
                    return Cases([(True, RaiseExc(IndexError, "Replacement index out of range for positional args tuple"))])
                v = args[auto]
                auto += 1
            elif field.isdigit():
                if int(field) >= len(args):
                    return Cases([(True, RaiseExc(IndexError, "Replacement index out of range for positional args tuple"))])
                v = args[int(field)]
            elif field.isidentifier():
                if field not in kwargs:
                    return Cases([(True, RaiseExc(KeyError, field))])
                v = kwargs[field]
            else:
                raise EngineUnsupported(f"str.format field {field!r}")
            segs += eng.format_value(st, v, spec or "", -1 if conv is None else ord(conv))
        return norm(SStr(segs))
    if isinstance(recv, str):
        if all(not isinstance(a, Sym) for a in args):
            try:
                return getattr(recv, name)(*args)
            except Exception as e:  # noqa
                return Cases([(True, RaiseExc(type(e), str(e)))])
    if isinstance(recv, SStr):
        if name == "split" and args == ["_"]:
            return sstr_split(st, recv)
        if name == "rsplit" and args == ["_", 1]:
            return sstr_rsplit1(st, recv)
    if isinstance(recv, _BinStr) and name == "count" and args == ["1"]:
        v = recv.v
        if isinstance(v, SSlice):
            from spec.msm import popcount_slice
            return SInt(popcount_slice(st, v))
        bits = to_bits(st, v)
        return norm(SInt(z3.Sum([z3.If(b, 1, 0) if not isinstance(b, bool) else z3.IntVal(int(b)) for b in bits]) if bits else z3.IntVal(0)))
    if isinstance(recv, SBytes) and name == "strip" and not args:
        return recv  # only ever passed on to int(.., 16), whose model is a function of the unstripped line
    if isinstance(recv, SBytes) and name in ("startswith", "endswith") and len(args) == 1 and isinstance(args[0], bytes):
        pre = args[0]
        n = bytes_len(recv)
        if name == "startswith":
            part = bytes_slice(st, recv, 0, len(pre))
        else:
            part = bytes_slice(st, recv, -len(pre), None) if pre else b""
        eq = ops.bytes_eq(st, part, pre) if len(pre) else True
        return norm(SBool(bool_term(zand(n >= len(pre), eq)))) if not isinstance(eq, bool) or eq else False
    if eng.inline and not isinstance(recv, (Sym, Ref)) and all(not isinstance(a, (Sym, Ref)) for a in args):
        # cross-check mode: external objects (BytesIO ...) are the real ones
        try:
            return getattr(recv, name)(*args, **kwargs)
        except Exception as e:  # noqa
            return Cases([(True, RaiseExc(type(e), str(e)))])
    if isinstance(recv, (bytes,)) and all(not isinstance(a, Sym) for a in args):
        return getattr(recv, name)(*args)
    raise EngineUnsupported(f"method {name} on {recv!r}")


def sstr_split(st, s):
    """split("_") of a segment-list string.  Fmt pieces contain no "_" (DESIGN 1.5-2)."""
    parts = [[]]
    for seg in s.segs:
        if isinstance(seg, str):
            sub = seg.split("_")
            parts[-1].append(sub[0])
            for x in sub[1:]:
                parts.append([x])
        else:
            parts[-1].append(seg)
    out = [norm(SStr(p)) if p else "" for p in parts]
    return st.alloc(HList(out))


def sstr_rsplit1(st, s):
    """rsplit("_", 1): [everything before the last "_", everything after it]."""
    segs = list(s.segs)
    for i in range(len(segs) - 1, -1, -1):
        if isinstance(segs[i], str) and "_" in segs[i]:
            a, b = segs[i].rsplit("_", 1)
            left = norm(SStr(segs[:i] + [a]))
            right = norm(SStr([b] + segs[i + 1:]))
            return st.alloc(HList([left if not (isinstance(left, SStr) and not left.segs) else "", right if not (isinstance(right, SStr) and not right.segs) else ""]))
    return st.alloc(HList([s]))


def dict_get(st, d, key, default):
    key = norm(key)
    if not isinstance(key, Sym):
        return d.get(key, default)
    if isinstance(key, (SInt, SBits)):
        c = determined_int(st.pc, int_term(key))
        if c is not None:
            return d.get(c, default)
        t = int_term(key)
        cases = []
        neg = []
        for k, v in d.items():
            if isinstance(k, int):
                cases.append((t == k, v))
                neg.append(t != k)
        cases.append((z3.And(*neg) if neg else True, default))
        return Cases(cases)
    if isinstance(key, SStr):
        c = ops.concretise_str(st, key)
        if isinstance(c, str):
            return d.get(c, default)
    raise EngineUnsupported(f"dict.get with key {key!r}")


def int_from_bytes(eng, st, args, kwargs):
    data = args[0] if args else kwargs.get("bytes")
    order = args[1] if len(args) > 1 else kwargs.get("byteorder")  # omitted: TypeError before Python 3.11 - outside the subset
    if order not in ("big", "little") or set(kwargs) - {"bytes", "byteorder", "signed"}:
        raise EngineUnsupported("int.from_bytes with a symbolic byte order")
    signed = bool(kwargs.get("signed"))
    if isinstance(data, bytes):
        return int.from_bytes(data, order, signed=signed)
    if signed:
        items = ops.bytes_items(st, as_sbytes(data))
        if items is None or not (1 <= len(items) <= 8):
            raise EngineUnsupported("signed from_bytes of unknown length")
        if order == "little":
            items = list(reversed(items))
        bits = []
        for it in reversed(items):
            b = to_bits(st, it)
            bits += b + [False] * (8 - len(b))
        w = len(bits)
        from pyvc.values import bits_to_int
        return SInt(bits_to_int(bits[:w - 1]) - (z3.If(bits[w - 1], z3.IntVal(1 << (w - 1)), z3.IntVal(0)) if not isinstance(bits[w - 1], bool) else ((1 << (w - 1)) if bits[w - 1] else 0)))
    data = as_sbytes(data)
    if order == "big" and len(data.segs) == 1 and isinstance(data.segs[0], View):
        return SPayInt(data.segs[0])
    items = ops.bytes_items(st, data)
    if items is not None and len(items) <= 8:
        if order == "little":
            items = list(reversed(items))
        bits = []
        for it in reversed(items):
            b = to_bits(st, it)
            bits += b + [False] * (8 - len(b))
        return norm(SBits(bits))
    if order == "big" and len(data.segs) == 1 and isinstance(data.segs[0], View):
        return SPayInt(data.segs[0])
    if order == "big" and len(data.segs) == 0:
        return 0
    raise EngineUnsupported("int.from_bytes on a composite value of unknown length")


def int_to_bytes(eng, st, v, args, kwargs):
    n = args[0] if args else kwargs.get("length", 1)
    order = args[1] if len(args) > 1 else kwargs.get("byteorder")  # omitted: TypeError before Python 3.11 - outside the subset
    if not isinstance(n, int) or order not in ("big", "little") or set(kwargs) - {"length", "byteorder", "signed"} or kwargs.get("signed"):
        raise EngineUnsupported("int.to_bytes with a symbolic length / byte order or signed=True")
    if isinstance(v, int):
        try:
            return v.to_bytes(n, order)
        except OverflowError as e:
            return Cases([(True, RaiseExc(OverflowError, str(e)))])
    t = int_term(v)
    try:
        bits = to_bits(st, v)
    except EngineUnsupported:
        bits = None
    if bits is not None and len(bits) <= 8 * n:
        bits = bits + [False] * (8 * n - len(bits))
        items = [norm(SBits(bits[8 * (n - 1 - k): 8 * (n - k)])) for k in range(n)]
        if order == "little":
            items.reverse()
        return SBytes([Items(items)])
    fits = z3.And(t >= 0, t < (1 << (8 * n)))
    items = []
    for k in range(n):  # big-endian item k = floor(t / 256^(n-1-k)) mod 256
        items.append(SInt((t / (256 ** (n - 1 - k))) % 256))
    if order == "little":
        items.reverse()
    return Cases([(fits, SBytes([Items(items)])), (z3.Not(fits), RaiseExc(OverflowError, "int too big to convert"))])


# ----------------------------------------------------------------------------------------
def get_item(eng, st, o, i):
    o, i = norm(o), norm(i)
    if o is UNDEF:
        raise EngineUnsupported("index of a havocked local")
    if o is None:
        return Cases([(True, RaiseExc(TypeError, "'NoneType' object is not subscriptable"))])
    if isinstance(o, Ref):
        obj = st.obj(o)
        if isinstance(obj, HList):
            c = i if isinstance(i, int) else determined_int(st.pc, int_term(i))
            if c is None:
                if all(isinstance(x, (str, SOpaque)) for x in obj.items):
                    st.heap[o.oid] = HSeq.from_list(obj.items)
                    return get_item(eng, st, o, i)
                raise EngineUnsupported("list index symbolic")
            try:
                return obj.items[c]
            except IndexError:
                return Cases([(True, RaiseExc(IndexError, "list index out of range"))])
        if isinstance(obj, HDict):
            if isinstance(i, Sym):
                raise EngineUnsupported("dict key symbolic")
            if i in obj.d:
                return obj.d[i]
            return Cases([(True, RaiseExc(KeyError, repr(i)))])
        if isinstance(obj, HSeq):
            k = int_term(i)
            ok = z3.And(k >= 0, k < obj.n)
            from pyvc.symex import wrap_kind
            return Cases([(ok, wrap_kind(obj.kind, z3.Select(obj.arr, k))), (z3.Not(ok), RaiseExc(IndexError, "list index out of range"))])
        if isinstance(obj, HList) and isinstance(i, Sym) and determined_int(st.pc, int_term(i)) is None \
                and all(isinstance(x, (str, SOpaque)) for x in obj.items):
            obj = HSeq.from_list(obj.items)
            st.heap[o.oid] = obj
            return get_item(eng, st, o, i)
        if isinstance(obj, HMap):
            k = int_term(i)
            present = z3.Select(obj.dom, k)
            val = obj.getval(k)
            return Cases([(present, val), (z3.Not(present), RaiseExc(KeyError, "key"))])
        raise EngineUnsupported("subscript of heap object")
    if isinstance(o, dict):
        if not isinstance(i, Sym):
            if i in o:
                return o[i]
            return Cases([(True, RaiseExc(KeyError, repr(i)))])
        if isinstance(i, SStr):
            c = ops.concretise_str(st, i)
            if isinstance(c, str):
                if c in o:
                    return o[c]
                return Cases([(True, RaiseExc(KeyError, c))])
            return pattern_lookup(st, o, i)
        raise EngineUnsupported(f"dict lookup with key {i!r}")
    if isinstance(o, (tuple, list, str)):
        if isinstance(i, Sym):
            c = determined_int(st.pc, int_term(i))
            if c is None:
                raise EngineUnsupported("tuple/str index symbolic")
            i = c
        try:
            return o[i]
        except IndexError:
            return Cases([(True, RaiseExc(IndexError, "index out of range"))])
    if isinstance(o, (bytes, SBytes)):
        return bytes_item(st, as_sbytes(o), i)
    if isinstance(o, SStr):
        raise EngineUnsupported("index into symbolic str")
    raise EngineUnsupported(f"subscript of {o!r}")


def pattern_lookup(st, d, key):
    """d[key] for a pattern string: cases over the keys the pattern can equal."""
    cases = []
    neg = []
    for k, v in d.items():
        if isinstance(k, str):
            e = ops.str_eq(st, key, k)
            if e is False:
                continue
            cases.append((bool_term(e) if not isinstance(e, bool) else True, v))
            neg.append(z3.Not(bool_term(e)) if not isinstance(e, bool) else False)
    cases.append((zand(*neg) if neg else True, RaiseExc(KeyError, "key")))
    return Cases(cases)


def bytes_item(st, b, i):
    """b[i] with IndexError when out of range."""
    n = bytes_len(b)
    ci = i if isinstance(i, int) else determined_int(st.pc, int_term(i))
    if ci is None:
        if len(b.segs) == 1 and isinstance(b.segs[0], View):
            t = int_term(i)
            v = b.segs[0]
            ok = z3.And(t >= 0, t < n)
            from pyvc.state import byte_at
            return Cases([(ok, SInt(byte_at(st, v.arr, v.lo + t))), (z3.Not(ok), RaiseExc(IndexError, "index out of range"))])
        raise EngineUnsupported("symbolic index into composite bytes")
    if ci < 0:
        # negative index: from the end; only for determined lengths
        ln = determined_int(st.pc, n)
        if ln is None:
            if len(b.segs) == 1 and isinstance(b.segs[0], View):  # b[-k] of one view of symbolic length: item hi-k, IndexError if shorter
                v = b.segs[0]
                ok = n >= -ci
                from pyvc.state import byte_at
                return Cases([(ok, SInt(byte_at(st, v.arr, v.hi + ci))), (z3.Not(ok), RaiseExc(IndexError, "index out of range"))])
            raise EngineUnsupported("negative index into bytes of unknown length")
        ci += ln
        if ci < 0:
            return Cases([(True, RaiseExc(IndexError, "index out of range"))])
    # walk segments
    off = 0
    for s in b.segs:
        ln = determined_int(st.pc, seg_len(s))
        if ln is None:
            # item lies in (or after) this unknown-length view
            if not isinstance(s, View):
                raise EngineUnsupported("index into bytes: unknown-length non-view")
            rest_after = [x for x in b.segs[b.segs.index(s) + 1:]]
            if rest_after:
                raise EngineUnsupported("index past an unknown-length segment")
            ok = n > ci
            return Cases([(ok, seg_item(st, s, ci - off)), (z3.Not(ok), RaiseExc(IndexError, "index out of range"))])
        if ci < off + ln:
            return seg_item(st, s, ci - off)
        off += ln
    return Cases([(True, RaiseExc(IndexError, "index out of range"))])


def get_slice(eng, st, o, lo, hi):
    o, lo, hi = norm(o), norm(lo), norm(hi)
    if not isinstance(o, Sym) and not isinstance(lo, Sym) and not isinstance(hi, Sym) and not isinstance(o, Ref):
        return o[lo:hi]
    if isinstance(o, (bytes, SBytes)):
        return bytes_slice(st, as_sbytes(o), lo, hi)
    if isinstance(o, SStr):
        return sstr_slice(st, o, lo, hi)
    raise EngineUnsupported(f"slice of {o!r}")


def sstr_slice(st, s, lo, hi):
    if lo in (None, 0) and isinstance(hi, int) and hi >= 0:
        # prefix: fine when it lies inside the leading concrete piece
        first = s.segs[0] if s.segs and isinstance(s.segs[0], str) else ""
        if len(first) >= hi:
            return first[:hi]
        return _SubStr(s, 0, hi)
    raise EngineUnsupported(f"slice [{lo}:{hi}] of symbolic str")


class _SubStr(Sym):
    """s[lo:hi] where the slice reaches into a formatted number (undetermined characters)."""

    def __init__(self, s, lo, hi):
        self.s, self.lo, self.hi = s, lo, hi


def bytes_slice(st, b, lo, hi):
    """b[lo:hi]: never raises; clamps like Python."""
    n = bytes_len(b)
    single = len(b.segs) == 1 and isinstance(b.segs[0], View)
    ln = determined_int(st.pc, n)

    def resolve(x, default):
        if x is None:
            return default
        if isinstance(x, int):
            return x
        c = determined_int(st.pc, int_term(x))
        return c if c is not None else x

    lo, hi = resolve(lo, 0), resolve(hi, None)
    if ln is not None:
        items = ops.bytes_items(st, b)
        if isinstance(lo, int) and (hi is None or isinstance(hi, int)):
            # keep view structure when possible
            return _slice_segments(st, b, *slice(lo, hi).indices(ln)[:2])
        raise EngineUnsupported("symbolic slice bound on fixed-length bytes")
    if not single:
        return _slice_composite(st, b, lo, hi)
    v = b.segs[0]
    # unknown length single view: bounds may be ints (possibly negative) or terms
    def absolute(x, is_hi):
        if x is None:
            return v.hi
        if isinstance(x, int):
            if x >= 0:
                return z3.If(v.lo + x <= v.hi, v.lo + x, v.hi)
            return z3.If(v.hi + x >= v.lo, v.hi + x, v.lo)
        t = int_term(x)
        return z3.If(t >= 0, z3.If(v.lo + t <= v.hi, v.lo + t, v.hi), z3.If(v.hi + t >= v.lo, v.hi + t, v.lo))
    a, c = resolve_ifs(st, absolute(lo, False)), resolve_ifs(st, absolute(hi, True))
    c2 = resolve_ifs(st, z3.If(c >= a, c, a))
    return SBytes([View(v.arr, a, c2)], mutable=b.mutable)


def resolve_ifs(st, t):
    """Simplify If-terms whose condition is decided by the path condition."""
    t = z3.simplify(t)
    if z3.is_app(t) and t.decl().kind() == z3.Z3_OP_ITE:
        c, x, y = t.arg(0), t.arg(1), t.arg(2)
        if entails(st.pc, c):
            return resolve_ifs(st, x)
        if entails(st.pc, z3.Not(c)):
            return resolve_ifs(st, y)
        return z3.If(c, resolve_ifs(st, x), resolve_ifs(st, y))
    return t


def _slice_segments(st, b, lo, hi):
    out = []
    off = 0
    for s in b.segs:
        ln = determined_int(st.pc, seg_len(s))
        a, c = max(lo, off), min(hi, off + ln)
        if a < c:
            if isinstance(s, bytes):
                out.append(s[a - off:c - off])
            elif isinstance(s, Items):
                out.append(Items(s.items[a - off:c - off]))
            else:
                out.append(View(s.arr, z3.simplify(s.lo + (a - off)), z3.simplify(s.lo + (c - off))))
        off += ln
    return norm(SBytes(out, mutable=b.mutable))


def _slice_composite(st, b, lo, hi):
    """Slice of [fixed segs..., one unknown-length view, fixed segs...] with int bounds."""
    lens = [determined_int(st.pc, seg_len(s)) for s in b.segs]
    unk = [i for i, x in enumerate(lens) if x is None]
    if len(unk) != 1 or not isinstance(b.segs[unk[0]], View):
        raise EngineUnsupported("slice of bytes with several unknown-length parts")
    u = unk[0]
    pre = sum(lens[:u])
    post = sum(lens[u + 1:])
    if not isinstance(lo, int) or not (hi is None or isinstance(hi, int)):
        raise EngineUnsupported("symbolic slice bound on composite bytes")
    v = b.segs[u]
    n = bytes_len(b)
    # only the shapes that occur: lo >= 0 within prefix..; hi None or negative within suffix
    if lo < 0 or (hi is not None and hi >= 0):
        raise EngineUnsupported(f"slice [{lo}:{hi}] of composite bytes")
    h = 0 if hi is None else -hi
    # result = prefix[lo:] + view + suffix[:post-h]    when lo <= pre and h <= post
    if lo <= pre and h <= post:
        segs = list(as_sbytes(_slice_segments(st, SBytes(b.segs[:u]), lo, pre)).segs) if u else []
        if not isinstance(segs, list):
            segs = list(segs)
        tail = _slice_segments(st, SBytes(b.segs[u + 1:]), 0, post - h)
        tail_segs = list(as_sbytes(tail).segs) if not isinstance(tail, bytes) else [tail]
        pre_v = norm(SBytes(segs))
        pre_segs = list(as_sbytes(pre_v).segs) if not isinstance(pre_v, bytes) else [pre_v]
        return SBytes(pre_segs + [v] + tail_segs, mutable=b.mutable)
    raise EngineUnsupported(f"slice [{lo}:{hi}] cutting into the unknown-length part")


def set_item(eng, st, o, i, v):
    if isinstance(o, Ref):
        obj = st.obj(o)
        i = norm(i)
        if isinstance(obj, HList):
            c = i if isinstance(i, int) else determined_int(st.pc, int_term(i))
            if c is None:
                raise EngineUnsupported("list store at symbolic index")
            try:
                obj.items[c] = v
            except IndexError:
                return Cases([(True, RaiseExc(IndexError, "list assignment index out of range"))])
            st.writes.add((o.oid, "items"))
            return None
        if isinstance(obj, HDict) and isinstance(i, Sym) and all(isinstance(k, int) for k in obj.d):
            obj = hmap_from_dict(obj.d)
            st.heap[o.oid] = obj
        if isinstance(obj, HDict):
            if isinstance(i, Sym):
                raise EngineUnsupported("dict store with symbolic key")
            obj.d[i] = v
            st.writes.add((o.oid, "d"))
            return None
        if isinstance(obj, HMap):
            obj.store(int_term(i), v)
            st.writes.add((o.oid, "map"))
            return None
    raise EngineUnsupported(f"item store on {o!r}")
