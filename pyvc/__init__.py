"""pyvc - verification-condition generator for pyrtcm (see /verif/DESIGN.md)."""
