"""Translation cross-check (DESIGN 1.2, thorough tier): the engine's own interpretation of the
extracted AST is run on concrete inputs, calls inlined, side by side with the real function
imported from $VERIF_REPO/src.  Any difference in result, exception class or object state is an
engine-soundness failure (CHECKER-ERROR, never a VIOLATION)."""
import io
import random

from pyvc import extract
from pyvc.contract import REGISTRY
from pyvc.ops import norm
from pyvc.state import State
from pyvc.symex import Engine, Return
from pyvc.values import HDict, HList, HMap, HObject, RaiseExc, Ref, Sym


def to_py(st, v, depth=0):
    v = norm(v)
    if isinstance(v, Ref):
        o = st.obj(v)
        if isinstance(o, HList):
            return [to_py(st, x, depth + 1) for x in o.items]
        if isinstance(o, HDict):
            return {k: to_py(st, x, depth + 1) for k, x in o.d.items()}
        if isinstance(o, HObject):
            return {"<class>": o.cls.rsplit(".", 1)[1], **{k: to_py(st, x, depth + 1) for k, x in o.fields.items() if k != "_logger"}}
        return f"<{type(o).__name__}>"
    if isinstance(v, tuple):
        return tuple(to_py(st, x, depth + 1) for x in v)
    if isinstance(v, Sym):
        return f"<symbolic {type(v).__name__}>"
    if isinstance(v, bytearray):
        return bytes(v)
    return v


def real_to_py(v):
    if hasattr(v, "__dict__") and type(v).__module__.startswith("pyrtcm"):
        return {"<class>": type(v).__name__, **{k: real_to_py(x) for k, x in v.__dict__.items() if k != "_logger"}}
    if isinstance(v, dict):
        return {k: real_to_py(x) for k, x in v.items()}
    if isinstance(v, list):
        return [real_to_py(x) for x in v]
    if isinstance(v, tuple):
        return tuple(real_to_py(x) for x in v)
    if isinstance(v, bytearray):
        return bytes(v)
    return v


def engine_call(qualname, args, kwargs=None, selfv=None):
    eng = Engine(REGISTRY, inline=True)
    st = State()
    eng.cur = extract.func(qualname if not qualname.endswith(".__init__") else qualname)
    outs = eng.call_qual(qualname, st, selfv, list(args), dict(kwargs or {}), None)
    if len(outs) != 1:
        return ("forked", len(outs))
    s, r = outs[0]
    if isinstance(r, RaiseExc):
        return ("raise", r.cls.__name__)
    return ("ok", to_py(s, r))


def real_call(fn, args, kwargs=None):
    try:
        return ("ok", real_to_py(fn(*args, **(kwargs or {}))))
    except BaseException as e:  # noqa
        return ("raise", type(e).__name__)


def run(seed=0, n_messages=60):
    """-> (programs, comparisons, mismatches[list])"""
    extract.ensure_path()
    from spec import encoder, streams
    import pyrtcm
    from pyrtcm import rtcmhelpers as hp
    rnd = random.Random(seed)
    mism = []
    cmp_ = 0
    progs = set()

    def check(label, q, eng_args, fn, real_args, kw=None):
        nonlocal cmp_
        cmp_ += 1
        progs.add(q)
        try:
            a = engine_call(q, eng_args, kw)
        except Exception as e:  # noqa
            a = ("engine-error", repr(e)[:200])
        b = real_call(fn, real_args, kw)
        if a != b:
            mism.append({"function": q, "case": label, "engine": str(a)[:300], "cpython": str(b)[:300]})

    H = "pyrtcm.rtcmhelpers."
    from props.common import byte_strings
    for m in list(byte_strings(seed, n=20)):
        check(m.hex()[:16], H + "calc_crc24q", [m], hp.calc_crc24q, [m])
        check(m.hex()[:16], H + "crc2bytes", [m], hp.crc2bytes, [m])
        check(m.hex()[:16], H + "len2bytes", [m], hp.len2bytes, [m])
    for name in ("DF406_103", "DF389_06", "IDF023_02_03", "DF396", "dodgy_xx", "PRN_01", "DF001_7", "CELLSIG_100"):
        check(name, H + "att2idx", [name], hp.att2idx, [name])
        check(name, H + "att2name", [name], hp.att2name, [name])
        check(name, H + "datadesc", [name], hp.datadesc, [name])
    corpus = list(encoder.corpus(seed, per_type=1, patterns=("random",)))
    rnd.shuffle(corpus)
    M = "pyrtcm.rtcmmessage.RTCMMessage"
    for ident, p in corpus[:n_messages]:
        for lm in (1, 2):
            check(f"{ident}/lm{lm}", M + ".__init__", [p, lm], pyrtcm.RTCMMessage, [p, lm])
        cut = p[:max(2, len(p) - rnd.randrange(1, 4))]
        check(f"{ident}/truncated", M + ".__init__", [cut, 1], pyrtcm.RTCMMessage, [cut, 1])
        fr = streams.frame(p)
        check(f"{ident}/parse", "pyrtcm.rtcmreader.RTCMReader.parse", [fr], pyrtcm.RTCMReader.parse, [fr])
        bad = fr[:-1] + bytes([fr[-1] ^ 1])
        check(f"{ident}/parse-badcrc", "pyrtcm.rtcmreader.RTCMReader.parse", [bad], pyrtcm.RTCMReader.parse, [bad])
    for p in (b"", b"\x3e", b"\xfe\xc0", b"\xfe\xc1", b"\x3e\xd0"):
        check(p.hex(), M + ".__init__", [p, 1], pyrtcm.RTCMMessage, [p, 1])
    return len(progs), cmp_, mism


def engine_seq(steps):
    """steps: list of (qualname, args-builder(results so far) -> (selfv, args, kwargs)); one shared state."""
    eng = Engine(REGISTRY, inline=True)
    st = State()
    results = []
    for q, build in steps:
        selfv, args, kwargs = build(results)
        eng.cur = extract.func(q)
        outs = eng.call_qual(q, st, selfv, list(args), dict(kwargs), None)
        if len(outs) != 1:
            return ("forked", len(outs)), st
        st, r = outs[0]
        if isinstance(r, RaiseExc):
            results.append(("raise", r.cls.__name__))
            return results, st
        results.append(r)
    return results, st


def run_sequences(seed=0, n=25):
    extract.ensure_path()
    from spec import encoder, streams
    import pyrtcm
    from pyrtcm import rtcmhelpers as hp
    rnd = random.Random(seed)
    mism = []
    cmp_ = 0
    M = "pyrtcm.rtcmmessage.RTCMMessage"
    H = "pyrtcm.rtcmhelpers."
    R = "pyrtcm.rtcmreader.RTCMReader"
    corpus = [(i, p) for i, p in encoder.corpus(seed + 7, per_type=1, patterns=("random",)) if "1070" <= i <= "1229" or i == "4076_201"]
    rnd.shuffle(corpus)
    for ident, p in corpus[:n]:
        for helper, fn in (("parse_msm", hp.parse_msm), ("parse_4076_201", hp.parse_4076_201)):
            cmp_ += 1
            try:
                res, st = engine_seq([(M + ".__init__", lambda r: (None, [p, 1], {})), (H + helper, lambda r: (None, [r[0]], {}))])
                if isinstance(res, list) and res and isinstance(res[-1], tuple) and len(res[-1]) == 2 and res[-1][0] == "raise":
                    a = res[-1]  # the constructor (or the helper) raised: compare the exception class
                elif isinstance(res, list) and len(res) == 2:
                    a = ("ok", to_py(st, res[1]))
                else:
                    a = ("other", str(res)[:100])
            except Exception as e:  # noqa
                a = ("engine-error", repr(e)[:200])
            b = real_call(lambda: fn(pyrtcm.RTCMMessage(payload=p)), [])
            if a != b:
                mism.append({"function": H + helper, "case": ident, "engine": str(a)[:300], "cpython": str(b)[:300]})
    # the reader loop over a mixed stream, through the engine with a real BytesIO as the external stream
    for k in range(8):
        items = streams.wellformed_stream(rnd)
        data = b"".join(x[1] for x in items)
        cmp_ += 1
        try:
            steps = [(R + ".__init__", lambda r: (None, [io.BytesIO(data)], {"quitonerror": 0}))]
            for _ in range(len(items) + 2):
                steps.append((R + ".read", lambda r: (r[0], [], {})))
            res, st = engine_seq(steps)
            a = [to_py(st, x) if not (isinstance(x, tuple) and x and x[0] == "raise") else x for x in res[1:]] if isinstance(res, list) else res
            a = [(x[0], (x[1] or {}).get("_payload") if isinstance(x[1], dict) else x[1]) if isinstance(x, tuple) and len(x) == 2 and x[0] != "raise" else x for x in a]
        except Exception as e:  # noqa
            a = ("engine-error", repr(e)[:200])
        rd = pyrtcm.RTCMReader(io.BytesIO(data), quitonerror=0)
        b = []
        for _ in range(len(items) + 2):
            try:
                raw, msg = rd.read()
            except BaseException as e:  # noqa
                b.append(("raise", type(e).__name__))
                break
            b.append((raw, msg.payload if msg is not None else None))
        if a != b:
            mism.append({"function": R + ".read", "case": data.hex()[:40], "engine": str(a)[:300], "cpython": str(b)[:300]})
    return cmp_, mism
