"""Value domain of the symbolic executor.

Concrete Python values (int, bool, str, bytes, None, tuples, table dicts, classes,
functions) are used as they are.  Everything below is a *symbolic* wrapper around z3 terms.
See DESIGN.md 1.3 / 1.4 / Appendix A for why these shapes were chosen.
"""
from __future__ import annotations

import itertools
import z3

_ctr = itertools.count()


def fresh_name(prefix):
    return f"{prefix}!{next(_ctr)}"


class EngineUnsupported(Exception):
    """The function uses something outside the modelled subset (never a violation)."""


class Sym:
    """Base of symbolic values."""


class SInt(Sym):
    """Mathematical integer (Python int) as a z3 Int term."""

    __slots__ = ("t",)

    def __init__(self, t):
        self.t = t

    def __repr__(self):
        return f"SInt({self.t})"


class SBits(Sym):
    """Non-negative integer as a list of z3 Bool terms, LSB first."""

    __slots__ = ("bits",)

    def __init__(self, bits):
        bits = [b if isinstance(b, bool) else _simp_bool(b) for b in bits]
        while bits and bits[-1] is False:
            bits.pop()
        self.bits = bits

    def __repr__(self):
        return f"SBits(w={len(self.bits)})"


def _simp_bool(b):
    if isinstance(b, bool):
        return b
    if z3.is_true(b):
        return True
    if z3.is_false(b):
        return False
    return b


class SBool(Sym):
    __slots__ = ("t",)

    def __init__(self, t):
        self.t = t

    def __repr__(self):
        return f"SBool({self.t})"


class SOpaque(Sym):
    """A z3 term of some other sort with a Python-side kind tag ('float', 'str', 'label')."""

    __slots__ = ("kind", "t")

    def __init__(self, kind, t):
        self.kind = kind
        self.t = t

    def __repr__(self):
        return f"SOpaque({self.kind},{self.t})"


class STruthy(Sym):
    """A value of which only the truthiness is modelled (e.g. an optional dict)."""

    __slots__ = ("t",)

    def __init__(self, t):
        self.t = t


class ExternalValue(Sym):
    """A caller-supplied object of unknown class: nothing is known about it, in particular its __str__/__repr__/__format__ may
    raise (an int too long to print, bytes under -bb, a user class)."""

    __slots__ = ("name",)

    def __init__(self, name):
        self.name = name


class Undefined:
    """Value of a local that was havocked at a loop head without a declared kind."""

    def __repr__(self):
        return "<undefined>"


UNDEF = Undefined()


# ----------------------------------------------------------------------------------------
# byte arrays, views, bytes values
# ----------------------------------------------------------------------------------------
class ByteArr:
    """Ghost byte array: uninterpreted Int -> Int with range [0,255] (facts instantiated
    at each access) plus the bit function Bit: Int -> Bool over absolute bit positions
    (bit p of the array = bit 7-(p%8) of byte p//8)."""

    _cache = {}

    def __init__(self, name):
        self.name = name
        self.f = z3.Function(f"byte_{name}", z3.IntSort(), z3.IntSort())
        self.bit = z3.Function(f"bit_{name}", z3.IntSort(), z3.BoolSort())

    @classmethod
    def get(cls, name):
        if name not in cls._cache:
            cls._cache[name] = ByteArr(name)
        return cls._cache[name]

    def __repr__(self):
        return f"ByteArr({self.name})"


class View:
    """arr[lo:hi] with lo <= hi as a fact of the path condition."""

    __slots__ = ("arr", "lo", "hi")

    def __init__(self, arr, lo, hi):
        self.arr = arr
        self.lo = lo if not isinstance(lo, int) else z3.IntVal(lo)
        self.hi = hi if not isinstance(hi, int) else z3.IntVal(hi)

    def length(self):
        return z3.simplify(self.hi - self.lo)

    def __repr__(self):
        return f"View({self.arr.name},{self.lo},{self.hi})"


class Items:
    """A run of individually known byte values (ints / SInt / SBits in [0,255])."""

    __slots__ = ("items",)

    def __init__(self, items):
        self.items = tuple(items)

    def __repr__(self):
        return f"Items({len(self.items)})"


class SBytes(Sym):
    """bytes / bytearray value: concatenation of segments (bytes | View | Items)."""

    __slots__ = ("segs", "mutable")

    def __init__(self, segs, mutable=False):
        out = []
        for s in segs:
            if isinstance(s, (bytes, bytearray)):
                if len(s) == 0:
                    continue
                s = bytes(s)
                if out and isinstance(out[-1], bytes):
                    out[-1] = out[-1] + s
                    continue
            elif isinstance(s, Items):
                if not s.items:
                    continue
            elif isinstance(s, View):
                ln = s.length()
                if z3.is_int_value(ln) and ln.as_long() == 0:
                    continue
                if out and isinstance(out[-1], View) and out[-1].arr is s.arr:
                    if z3.eq(z3.simplify(out[-1].hi - s.lo), z3.IntVal(0)):
                        out[-1] = View(s.arr, out[-1].lo, s.hi)
                        continue
            out.append(s)
        self.segs = tuple(out)
        self.mutable = mutable

    def __repr__(self):
        return f"SBytes{self.segs}"


def as_sbytes(v):
    if isinstance(v, SBytes):
        return v
    if isinstance(v, (bytes, bytearray)):
        return SBytes([bytes(v)])
    raise EngineUnsupported(f"not a bytes value: {v!r}")


# ----------------------------------------------------------------------------------------
# strings
# ----------------------------------------------------------------------------------------
class Fmt:
    """A formatted integer piece f"{v:spec}" (spec in '02d','03d','d')."""

    __slots__ = ("spec", "v")

    def __init__(self, spec, v):
        self.spec = spec
        self.v = v  # SInt / SBits (non-negative in every use in pyrtcm)

    def __repr__(self):
        return f"Fmt({self.spec},{self.v})"


class SStr(Sym):
    """str value: concatenation of concrete str pieces and Fmt pieces."""

    __slots__ = ("segs",)

    def __init__(self, segs):
        out = []
        for s in segs:
            if isinstance(s, str):
                if not s:
                    continue
                if out and isinstance(out[-1], str):
                    out[-1] += s
                    continue
            out.append(s)
        self.segs = tuple(out)

    def __repr__(self):
        return f"SStr{self.segs}"


# ----------------------------------------------------------------------------------------
# payload integer and its slices (DESIGN 1.4)
# ----------------------------------------------------------------------------------------
class SPayInt(Sym):
    """int.from_bytes(view, 'big'); nbits = 8*len."""

    __slots__ = ("view",)

    def __init__(self, view):
        self.view = view

    @property
    def nbits(self):
        return 8 * (self.view.hi - self.view.lo)

    def bit_msb(self, k):
        """Bool term: MSB-first bit k of the payload (caller guarantees 0<=k<nbits)."""
        return self.view.arr.bit(z3.simplify(8 * self.view.lo + k))


class SShifted(Sym):
    """SPayInt >> k, k >= 0."""

    __slots__ = ("pay", "k")

    def __init__(self, pay, k):
        self.pay = pay
        self.k = k


class SPow2(Sym):
    """1 << a for symbolic a >= 0."""

    __slots__ = ("a",)

    def __init__(self, a):
        self.a = a


class SMask(Sym):
    """(1 << a) - 1 for symbolic a >= 0."""

    __slots__ = ("a",)

    def __init__(self, a):
        self.a = a


class SSlice(Sym):
    """(pay >> k) & ((1 << a) - 1) for symbolic width a >= 0: bits k .. k+a-1 (LSB numbering)
    of the payload integer."""

    __slots__ = ("pay", "k", "a")

    def __init__(self, pay, k, a):
        self.pay = pay
        self.k = k
        self.a = a

    def bit_lsb(self, j):
        """Bool term for bit j (LSB numbering, caller guarantees 0 <= j < a)."""
        nb = self.pay.nbits
        return z3.And(self.k + j < nb, self.pay.bit_msb(nb - 1 - self.k - j))


# ----------------------------------------------------------------------------------------
# heap
# ----------------------------------------------------------------------------------------
class Ref:
    __slots__ = ("oid",)

    def __init__(self, oid):
        self.oid = oid

    def __repr__(self):
        return f"Ref({self.oid})"

    def __eq__(self, o):
        return isinstance(o, Ref) and o.oid == self.oid

    def __hash__(self):
        return hash(("Ref", self.oid))


class HList:
    def __init__(self, items):
        self.items = list(items)

    def copy(self):
        return HList(self.items)


class HGen:
    """Generator object (a generator expression that is not consumed on the spot): ONE-SHOT - the first iteration takes the
    items, every later one finds it exhausted.  (Its elements are computed when it is created; element expressions that may
    raise are outside the subset, see Engine.ex_GeneratorExp.)"""

    def __init__(self, items):
        self.items = list(items)

    def copy(self):
        return HGen(self.items)


class HDict:
    """dict created at run time with concrete keys."""

    def __init__(self, d=None):
        self.d = dict(d or {})

    def copy(self):
        return HDict(self.d)


class HMap:
    """dict with symbolic integer keys and string (or tuple-of-string) values:
    z3 arrays key -> component value, key -> present."""

    def __init__(self, kind, val, dom, tuple_valued=False):
        self.kind = kind  # None (unset) | 1 (scalar str) | n>=2 (tuple of n strs)
        self.val = val  # tuple of z3 arrays Int -> String
        self.dom = dom
        self.tuple_valued = tuple_valued

    def copy(self):
        return HMap(self.kind, self.val, self.dom, self.tuple_valued)

    @staticmethod
    def empty():
        return HMap(None, (), z3.K(z3.IntSort(), z3.BoolVal(False)))

    def _zs(self, v):
        if isinstance(v, str):
            return z3.StringVal(v)
        if isinstance(v, SOpaque) and v.kind == "str":
            return v.t
        raise EngineUnsupported(f"HMap value {v!r}")

    def store(self, k, v):
        comps = list(v) if isinstance(v, tuple) else [v]
        n = len(comps) if isinstance(v, tuple) else 1
        if self.kind is None:
            self.kind = n if isinstance(v, tuple) else 1
            self.val = tuple(z3.K(z3.IntSort(), z3.StringVal("")) for _ in comps)
        if len(self.val) != len(comps):
            raise EngineUnsupported("HMap value shape changed")
        self.val = tuple(z3.Store(a, k, self._zs(c)) for a, c in zip(self.val, comps))
        self.dom = z3.Store(self.dom, k, z3.BoolVal(True))
        self.tuple_valued = isinstance(v, tuple)

    def getval(self, k):
        vals = [SOpaque("str", z3.Select(a, k)) for a in self.val]
        if self.tuple_valued:
            return tuple(vals)
        return vals[0]


class HSeq:
    """list of symbolic length whose items are all of one kind: (n, z3 Array Int -> sort(kind))."""

    def __init__(self, n, arr, kind="str"):
        self.n = n
        self.arr = arr
        self.kind = kind

    def copy(self):
        return HSeq(self.n, self.arr, self.kind)

    @staticmethod
    def from_list(items, kind=None):
        if kind is None:
            kind = _kind_of(items[0]) if items else "str"
        arr = z3.K(z3.IntSort(), _default_term(kind))
        for i, x in enumerate(items):
            arr = z3.Store(arr, z3.IntVal(i), _term_of(kind, x))
        return HSeq(z3.IntVal(len(items)), arr, kind)


class HRecSeq:
    """list of dicts that all have the same concrete key tuple: per key an array index -> value."""

    def __init__(self, n, keys=None, arrs=None, kinds=None):
        self.n = n
        self.keys = keys          # tuple of concrete keys, None until the first append
        self.arrs = dict(arrs or {})
        self.kinds = dict(kinds or {})

    def copy(self):
        return HRecSeq(self.n, self.keys, self.arrs, self.kinds)


def _kind_of(v):
    if isinstance(v, bool):
        return "bool"
    if isinstance(v, (int, SInt, SBits)):
        return "int"
    if isinstance(v, str):
        return "str"
    if isinstance(v, float):
        return "float"
    if isinstance(v, SOpaque):
        return v.kind
    raise EngineUnsupported(f"sequence item {v!r}")


def _default_term(kind):
    return {"int": z3.IntVal(0), "str": z3.StringVal(""), "float": z3.Const("float_default", FloatSort), "bool": z3.BoolVal(False)}[kind]


def _term_of(kind, v):
    if kind == "int":
        return int_term(v)
    if kind == "str":
        return _zstr_val(v)
    if kind == "float" and isinstance(v, SOpaque) and v.kind == "float":
        return v.t
    if kind == "bool":
        return bool_term(v) if not isinstance(v, bool) else z3.BoolVal(v)
    raise EngineUnsupported(f"value {v!r} as sequence item of kind {kind}")


def _zstr_val(v):
    if isinstance(v, str):
        return z3.StringVal(v)
    if isinstance(v, SOpaque) and v.kind == "str":
        return v.t
    raise EngineUnsupported(f"string value expected, got {v!r}")


def hmap_from_dict(d):
    m = HMap.empty()
    for k, v in d.items():
        if not isinstance(k, int):
            raise EngineUnsupported("dict with non-int keys as symbolic map")
        m.store(z3.IntVal(k), v)
    return m


class AttrEntry:
    """One (base, arity) slot of a message's dynamic attribute store."""

    __slots__ = ("kind", "val", "dom")

    def __init__(self, kind, val, dom):
        self.kind = kind  # 'int' | 'float' | 'str' | 'any'
        self.val = val  # arity 0: engine value; arity>=1: z3 Array (Int.. -> sort(kind))
        self.dom = dom  # arity 0: bool / z3 Bool; arity>=1: z3 Array (Int.. -> Bool)


class HObject:
    def __init__(self, cls, fields=None, attrs=None):
        self.cls = cls  # qualified class name
        self.fields = dict(fields or {})
        self.attrs = dict(attrs or {})  # (base, arity) -> AttrEntry
        self.written = set()  # (base, arity) keys written so far (frame bookkeeping)

    def copy(self):
        o = HObject(self.cls, self.fields, {k: AttrEntry(e.kind, e.val, e.dom) for k, e in self.attrs.items()})
        for k, v in self.__dict__.items():
            if k not in ("cls", "fields", "attrs", "written"):
                setattr(o, k, dict(v) if isinstance(v, dict) else v)
        o.written = set(self.written)
        return o


class RaiseExc:
    """Abrupt outcome."""

    def __init__(self, cls, msg=None, cause=None, tag=None):
        self.cls = cls  # a real Python exception class
        self.msg = msg
        self.cause = cause
        self.tag = tag  # which exceptional postcondition produced it, if any

    def __repr__(self):
        return f"Raise({self.cls.__name__})"


class ExcValue:
    """An exception *instance* bound by `except ... as err` or created by `Cls(msg)`."""

    def __init__(self, cls, msg=None, tag=None):
        self.cls = cls
        self.msg = msg
        self.tag = tag


# sorts / functions shared by the engine and the specs
FloatSort = z3.DeclareSort("PyFloat")
StrSort = z3.StringSort()
CHR = z3.Function("py_chr", z3.IntSort(), StrSort)
_pymul_cache = {}


def pymul(res):
    """Uninterpreted  int * <float constant res>  (DESIGN 1.5-3)."""
    key = repr(res)
    if key not in _pymul_cache:
        _pymul_cache[key] = z3.Function(f"pymul_{len(_pymul_cache)}", z3.IntSort(), FloatSort)
    return _pymul_cache[key]


def sort_of_kind(kind):
    return {"int": z3.IntSort(), "float": FloatSort, "str": StrSort, "bool": z3.BoolSort()}[kind]


def bits_to_int(bits):
    """Linear sum  sum_j 2^j * [bit_j]."""
    terms = []
    const = 0
    for j, b in enumerate(bits):
        if b is True:
            const += 1 << j
        elif b is False:
            continue
        else:
            terms.append(z3.If(b, z3.IntVal(1 << j), z3.IntVal(0)))
    if not terms:
        return z3.IntVal(const)
    s = z3.Sum(terms) if len(terms) > 1 else terms[0]
    return s + const if const else s


def int_term(v):
    """z3 Int term of an int-like engine value."""
    if isinstance(v, bool):
        return z3.IntVal(int(v))
    if isinstance(v, int):
        return z3.IntVal(v)
    if isinstance(v, SInt):
        return v.t
    if isinstance(v, SBits):
        return bits_to_int(v.bits)
    if isinstance(v, SBool):
        return z3.If(v.t, z3.IntVal(1), z3.IntVal(0))
    raise EngineUnsupported(f"not an int-like value: {v!r}")


def is_intlike(v):
    return isinstance(v, (int, SInt, SBits)) and not isinstance(v, bool) or isinstance(v, bool)


def bool_term(b):
    if isinstance(b, bool):
        return z3.BoolVal(b)
    if isinstance(b, SBool):
        return b.t
    return b


def zand(*xs):
    xs = [x for x in xs if x is not True]
    if any(x is False for x in xs):
        return False
    if not xs:
        return True
    return z3.And(*[bool_term(x) for x in xs]) if len(xs) > 1 else xs[0]


def zor(*xs):
    xs = [x for x in xs if x is not False]
    if any(x is True for x in xs):
        return True
    if not xs:
        return False
    return z3.Or(*[bool_term(x) for x in xs]) if len(xs) > 1 else xs[0]


def znot(x):
    if isinstance(x, bool):
        return not x
    return z3.Not(x)


def zxor(a, b):
    if isinstance(a, bool):
        return znot(b) if a else b
    if isinstance(b, bool):
        return znot(a) if b else a
    return z3.Xor(a, b)


def zite(c, a, b):
    if isinstance(c, bool):
        return a if c else b
    if isinstance(a, bool) and isinstance(b, bool):
        if a == b:
            return a
        return c if a else z3.Not(c)
    return z3.If(c, bool_term(a), bool_term(b))
