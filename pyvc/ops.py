"""Operators on engine values.  Each returns a value, or a list of (guard, outcome) when the
operation can raise (handled by the caller through `Engine.split`)."""
from __future__ import annotations

import ast
import operator
import z3

from pyvc.state import byte_at, determined_int, entails, to_bits
from pyvc.values import (
    EngineUnsupported, Fmt, Items, RaiseExc, Ref, SBits, SBool, SBytes, SInt, SMask, SOpaque,
    SPayInt, SPow2, SShifted, SSlice, SStr, Sym, UNDEF, View, as_sbytes, bits_to_int, bool_term,
    int_term, znot, zand, zor, zxor,
)

PYOPS = {
    ast.Add: operator.add, ast.Sub: operator.sub, ast.Mult: operator.mul, ast.Div: operator.truediv,
    ast.FloorDiv: operator.floordiv, ast.Mod: operator.mod, ast.LShift: operator.lshift,
    ast.RShift: operator.rshift, ast.BitAnd: operator.and_, ast.BitOr: operator.or_,
    ast.BitXor: operator.xor, ast.Pow: operator.pow,
}
PYCMP = {
    ast.Eq: operator.eq, ast.NotEq: operator.ne, ast.Lt: operator.lt, ast.LtE: operator.le,
    ast.Gt: operator.gt, ast.GtE: operator.ge,
}


class Cases:
    """Result of an operation that forks: list of (guard Bool term | True, value | RaiseExc)."""

    def __init__(self, cases):
        self.cases = cases


def is_sym(v):
    return isinstance(v, Sym)


def is_int(v):
    return (isinstance(v, int) and not isinstance(v, bool)) or isinstance(v, (SInt, SBits))


def is_intb(v):
    return isinstance(v, (int, SInt, SBits, SBool))


def const_int(v):
    if isinstance(v, bool):
        return int(v)
    if isinstance(v, int):
        return v
    if isinstance(v, SBits) and all(isinstance(b, bool) for b in v.bits):
        return sum(1 << j for j, b in enumerate(v.bits) if b)
    if isinstance(v, SInt):
        t = z3.simplify(v.t)
        if z3.is_int_value(t):
            return t.as_long()
    return None


def norm(v):
    """Fold fully concrete symbolic wrappers back to Python values."""
    if isinstance(v, (SInt, SBits)):
        c = const_int(v)
        if c is not None:
            return c
    if isinstance(v, SBool):
        t = z3.simplify(v.t)
        if z3.is_true(t):
            return True
        if z3.is_false(t):
            return False
    if isinstance(v, SStr) and all(isinstance(s, str) for s in v.segs):
        return "".join(v.segs)
    if isinstance(v, SBytes) and not v.mutable and all(isinstance(s, bytes) for s in v.segs):
        return b"".join(v.segs)
    return v


# ----------------------------------------------------------------------------------------
def binop(st, op, a, b):
    a, b = norm(a), norm(b)
    if a is UNDEF or b is UNDEF:
        raise EngineUnsupported("use of a havocked local without a declared kind")
    if not is_sym(a) and not is_sym(b):
        try:
            return PYOPS[op](a, b)
        except (ValueError, TypeError, ZeroDivisionError, OverflowError) as e:
            return Cases([(True, RaiseExc(type(e), str(e)))])
    # ---- strings
    if isinstance(a, (str, SStr)) and isinstance(b, (str, SStr)) and op is ast.Add:
        return norm(SStr(_ssegs(a) + _ssegs(b)))
    if isinstance(a, SOpaque) and a.kind == "str" or isinstance(b, SOpaque) and b.kind == "str":
        if op is ast.Add:
            return SOpaque("str", z3.Concat(_zstr(a), _zstr(b)))
    # ---- bytes
    if isinstance(a, (bytes, bytearray, SBytes)) and isinstance(b, (bytes, bytearray, SBytes)) and op is ast.Add:
        sa, sb = as_sbytes(a), as_sbytes(b)
        return norm(SBytes(sa.segs + sb.segs, mutable=sa.mutable))
    # ---- payload-int idiom
    if isinstance(a, SPayInt) and op is ast.RShift:
        k = int_term(b)
        return Cases([(k < 0, RaiseExc(ValueError, "negative shift count")),
                      (k >= 0, SShifted(a, z3.simplify(k)))])
    if isinstance(a, SShifted) and op is ast.BitAnd:
        return _mask_shifted(st, a, b)
    if isinstance(b, SShifted) and op is ast.BitAnd:
        return _mask_shifted(st, b, a)
    if isinstance(a, SSlice) and op is ast.RShift:
        k = int_term(b)
        return Cases([(k < 0, RaiseExc(ValueError, "negative shift count")),
                      (k >= 0, _ShiftedSlice(a, z3.simplify(k)))])
    if isinstance(a, _ShiftedSlice) and op is ast.BitAnd and const_int(b) == 1:
        sl, k = a.sl, a.k
        return SBits([z3.And(k < sl.a, sl.bit_lsb(k))])
    if op is ast.LShift and const_int(a) == 1 and isinstance(b, (SInt, SBits)):
        k = int_term(b)
        return Cases([(k < 0, RaiseExc(ValueError, "negative shift count")), (k >= 0, SPow2(k))])
    if isinstance(a, SPow2) and op is ast.Sub and const_int(b) == 1:
        return SMask(a.a)
    # ---- integers
    if isinstance(a, SPayInt) and op is not ast.RShift or isinstance(b, SPayInt):
        a, b = small_payint(st, a), small_payint(st, b)
    if is_intb(a) and is_intb(b):
        return _int_binop(st, op, a, b)
    # ---- float scaling: int * concrete float (DESIGN 1.5-3)
    if op is ast.Mult and is_intb(a) and isinstance(b, float):
        from pyvc.values import pymul
        return SOpaque("float", pymul(b)(int_term(a)))
    raise EngineUnsupported(f"binop {op.__name__} on {a!r}, {b!r}")


class _ShiftedSlice(Sym):
    def __init__(self, sl, k):
        self.sl = sl
        self.k = k


def _mask_shifted(st, sh, m):
    if isinstance(m, SMask):
        return SSlice(sh.pay, sh.k, m.a)
    c = const_int(m)
    if c is None or c < 0 or (c & (c + 1)) != 0:
        raise EngineUnsupported("payload integer masked with something other than 2^a-1")
    a = c.bit_length()
    nb = sh.pay.nbits
    bits = []
    # bits above the payload's top bit are zero; when the whole field provably lies inside
    # (k + a <= nb, i.e. offset >= 0) the guard is dropped so that the atoms are plain payload bits
    inside = entails(st.pc, sh.k + a <= nb)
    for j in range(a):
        pos = z3.simplify(nb - 1 - sh.k - j)
        b = sh.pay.bit_msb(pos)
        bits.append(b if inside else z3.And(sh.k + j < nb, b))
    return SBits(bits)


def _ssegs(s):
    return (s,) if isinstance(s, str) else s.segs


def _zstr(v):
    if isinstance(v, str):
        return z3.StringVal(v)
    if isinstance(v, SOpaque) and v.kind == "str":
        return v.t
    raise EngineUnsupported(f"string op on {v!r}")


def _bits_of(st, v):
    return to_bits(st, v)


def _int_binop(st, op, a, b):
    ca, cb = const_int(a), const_int(b)
    if op in (ast.BitAnd, ast.BitOr, ast.BitXor):
        # structural on bit lists; negative constants allowed as masks for &
        if cb is not None and cb < 0 or ca is not None and ca < 0:
            if op is ast.BitAnd:
                (neg, other) = (cb, a) if (cb is not None and cb < 0) else (ca, b)
                bits = _bits_of(st, other)
                return norm(SBits([x if (neg >> j) & 1 else False for j, x in enumerate(bits)]))
            raise EngineUnsupported("| or ^ with a negative constant")
        if op is ast.BitAnd:
            for x, c in ((a, cb), (b, ca)):
                if c is not None and c >= 0 and (c & (c + 1)) == 0 and isinstance(x, SInt):
                    try:
                        _bits_of(st, x)
                    except EngineUnsupported:
                        return SInt(x.t % (c + 1))  # Python: x & (2^k-1) == x mod 2^k for every int x
            for x, c, first in ((a, cb, True), (b, ca, False)):
                if c is not None and c >= 0 and isinstance(x, SInt):
                    try:
                        _bits_of(st, x)
                    except EngineUnsupported:
                        # x & c == (x mod 2^k) & c with k = bit_length(c), for every int x
                        y = SInt(x.t % (1 << c.bit_length()))
                        return _int_binop(st, op, y, c)
        ba, bb = _bits_of(st, a), _bits_of(st, b)
        n = max(len(ba), len(bb))
        ba += [False] * (n - len(ba))
        bb += [False] * (n - len(bb))
        f = {ast.BitAnd: zand, ast.BitOr: zor, ast.BitXor: zxor}[op]
        return norm(SBits([f(x, y) for x, y in zip(ba, bb)]))
    if op is ast.LShift:
        if cb is not None:
            if cb < 0:
                return Cases([(True, RaiseExc(ValueError, "negative shift count"))])
            if isinstance(a, SInt):
                try:
                    return norm(SBits([False] * cb + _bits_of(st, a)))
                except EngineUnsupported:
                    return SInt(a.t * (1 << cb))
            return norm(SBits([False] * cb + _bits_of(st, a)))
        raise EngineUnsupported("left shift by a symbolic amount")
    if op is ast.RShift:
        if cb is not None:
            if cb < 0:
                return Cases([(True, RaiseExc(ValueError, "negative shift count"))])
            return norm(SBits(_bits_of(st, a)[cb:]))
        # symbolic shift of a bit list: only `x >> k & 1` style is supported (see compare)
        k = int_term(b)
        bits = _bits_of(st, a)
        return Cases([(k < 0, RaiseExc(ValueError, "negative shift count")),
                      (k >= 0, _ShiftedBits(bits, k))])
    ta, tb = int_term(a), int_term(b)
    if op is ast.Add:
        return norm(SInt(z3.simplify(ta + tb)))
    if op is ast.Sub:
        return norm(SInt(z3.simplify(ta - tb)))
    if op is ast.Mult:
        if ca is None and cb is None:
            return SInt(ta * tb)  # non-linear: only DF396 width NSat*NSig and nsat*nsig
        return norm(SInt(z3.simplify(ta * tb)))
    if op is ast.FloorDiv and cb is not None and cb > 0:
        return SInt(ta / tb)  # z3 Int division is floor for positive divisors
    if op is ast.Mod and cb is not None and cb > 0:
        return SInt(ta % tb)
    if op is ast.Div:
        # true division: only used in the IDF038 coefficient-count formula; kept exact as a
        # rational number
        return SOpaque("real", z3.ToReal(ta) / z3.ToReal(tb))
    raise EngineUnsupported(f"int binop {op.__name__}")


class _ShiftedBits(Sym):
    def __init__(self, bits, k):
        self.bits = bits
        self.k = k


def binop_post(st, op, a, b):
    """Second-chance patterns involving helper wrappers."""
    if isinstance(a, _ShiftedBits) and op is ast.BitAnd and const_int(b) == 1:
        sel = False
        for j, x in enumerate(a.bits):
            sel = zor(sel, zand(a.k == j, x))
        return SBits([sel])
    return None


def real_binop(op, a, b):
    def rt(v):
        if isinstance(v, SOpaque) and v.kind == "real":
            return v.t
        if is_intb(v):
            return z3.ToReal(int_term(v))
        if isinstance(v, float):
            return z3.RealVal(repr(v))
        raise EngineUnsupported(f"real op on {v!r}")
    ta, tb = rt(a), rt(b)
    if op is ast.Add:
        return SOpaque("real", ta + tb)
    if op is ast.Sub:
        return SOpaque("real", ta - tb)
    if op is ast.Mult:
        return SOpaque("real", ta * tb)
    if op is ast.Div:
        return SOpaque("real", ta / tb)
    raise EngineUnsupported("real binop")


# ----------------------------------------------------------------------------------------
def unop(st, op, v):
    v = norm(v)
    if not is_sym(v):
        if op is ast.Not:
            return not v
        if op is ast.Invert:
            return ~v
        if op is ast.USub:
            return -v
        if op is ast.UAdd:
            return +v
    if op is ast.Not:
        return norm(SBool(bool_term(znot(truth(st, v)))))
    if op is ast.USub and is_intb(v):
        return SInt(-int_term(v))
    raise EngineUnsupported(f"unary {op.__name__} on {v!r}")


def truth(st, v):
    """Python truthiness as bool or z3 Bool term."""
    v = norm(v)
    if v is UNDEF:
        raise EngineUnsupported("truth of a havocked local without a declared kind")
    if isinstance(v, SBool):
        return v.t
    from pyvc.values import STruthy
    if isinstance(v, STruthy):
        return v.t
    if isinstance(v, SInt):
        return v.t != 0
    if isinstance(v, SBits):
        return zor(*v.bits)
    if isinstance(v, SBytes):
        return bytes_len(v) != 0
    if isinstance(v, Ref):
        return True  # only list/dict/objects; emptiness of containers is handled by callers
    if type(v).__name__ == "ExternalCallable":
        return z3.Bool("external_callable_is_truthy")  # a user-supplied callable may define __bool__ / __len__
    if isinstance(v, Sym):
        raise EngineUnsupported(f"truth of {v!r}")
    return bool(v)


# ----------------------------------------------------------------------------------------
# bytes helpers
# ----------------------------------------------------------------------------------------
def seg_len(s):
    if isinstance(s, bytes):
        return z3.IntVal(len(s))
    if isinstance(s, Items):
        return z3.IntVal(len(s.items))
    return s.length()


def bytes_len(v):
    v = as_sbytes(v)
    if not v.segs:
        return z3.IntVal(0)
    return z3.simplify(z3.Sum([seg_len(s) for s in v.segs]) if len(v.segs) > 1 else seg_len(v.segs[0]))


def seg_item(st, s, i):
    """Byte i (concrete int) of segment s as an int-like value."""
    if isinstance(s, bytes):
        return s[i]
    if isinstance(s, Items):
        return s.items[i]
    return SInt(byte_at(st, s.arr, z3.simplify(s.lo + i)))


def concrete_len(st, v):
    t = bytes_len(v)
    return determined_int(st.pc, t)


def bytes_items(st, v):
    """All bytes of a value whose length is determined, as int-like values; else None."""
    v = as_sbytes(v)
    out = []
    for s in v.segs:
        n = determined_int(st.pc, seg_len(s))
        if n is None:
            return None
        for i in range(n):
            out.append(seg_item(st, s, i))
    return out


def bytes_eq(st, a, b):
    """Bool term / bool for a == b."""
    a, b = as_sbytes(a), as_sbytes(b)
    la, lb = bytes_len(a), bytes_len(b)
    ia, ib = bytes_items(st, a), bytes_items(st, b)
    if ia is not None and ib is not None:
        if len(ia) != len(ib):
            return False
        return zand(*[_int_eq(x, y) for x, y in zip(ia, ib)])
    # one side has a known length n: equal iff other has length n and items agree
    known, other = (ia, b) if ia is not None else (ib, a)
    if known is None:
        return _bytes_eq_lockstep(st, a, b)
    n = len(known)
    lo = z3.simplify((la if other is a else lb))
    conds = [lo == n]
    # items of `other` at concrete offsets, valid under length == n: walk segments
    items = _items_prefix(st, other, n)
    if items is None:
        raise EngineUnsupported("bytes equality: cannot index unknown-length value")
    conds += [_int_eq(x, y) for x, y in zip(items, known)]
    return zand(*conds)


def _bytes_eq_lockstep(st, a, b):
    """Both values contain unknown-length views: equal if they split into the same views at
    the same places with equal known-length runs in between (sufficient condition only -
    a False here would be unsound, so anything else is 'unsupported')."""
    def runs(v):
        out = []
        cur = []
        for s in v.segs:
            n = determined_int(st.pc, seg_len(s))
            if n is None:
                out.append(("items", cur))
                out.append(("view", s))
                cur = []
            else:
                cur = cur + [seg_item(st, s, i) for i in range(n)]
        out.append(("items", cur))
        return out
    ra, rb = runs(a), runs(b)
    if len(ra) != len(rb):
        raise EngineUnsupported("equality of two bytes values of unknown length (different shapes)")
    conds = []
    for (ka, xa), (kb, xb) in zip(ra, rb):
        if ka == "view":
            if not (isinstance(xa, View) and isinstance(xb, View) and _seg_same(xa, xb)):
                raise EngineUnsupported("equality of two different unknown-length views")
        else:
            if len(xa) != len(xb):
                raise EngineUnsupported("equality of two bytes values of unknown length (run lengths differ)")
            conds += [_int_eq_bits(st, p, q) for p, q in zip(xa, xb)]
    return zand(*conds)


def _int_eq_bits(st, x, y):
    r = int_eq(st, x, y)
    return r


def bytes_identical(st, a, b):
    """Sufficient condition (for postconditions, never for branch conditions): the two values
    are the same slices / the same items, segment by segment."""
    a, b = as_sbytes(a), as_sbytes(b)
    if len(a.segs) != len(b.segs):
        ia, ib = bytes_items(st, a), bytes_items(st, b)
        if ia is not None and ib is not None and len(ia) == len(ib):
            return zand(*[int_eq(st, x, y) for x, y in zip(ia, ib)])
        return False
    conds = []
    for x, y in zip(a.segs, b.segs):
        if isinstance(x, View) and isinstance(y, View):
            if x.arr is not y.arr:
                return False
            conds += [x.lo == y.lo, x.hi == y.hi]
        else:
            nx, ny = determined_int(st.pc, seg_len(x)), determined_int(st.pc, seg_len(y))
            if nx is None or ny is None or nx != ny:
                return False
            conds += [int_eq(st, seg_item(st, x, i), seg_item(st, y, i)) for i in range(nx)]
    return zand(*conds)


def _seg_same(x, y):
    if isinstance(x, View) and isinstance(y, View):
        return x.arr is y.arr and z3.eq(z3.simplify(x.lo - y.lo), z3.IntVal(0)) and z3.eq(z3.simplify(x.hi - y.hi), z3.IntVal(0))
    if isinstance(x, bytes) and isinstance(y, bytes):
        return x == y
    return False


def _items_prefix(st, v, n):
    """First n items of a bytes value that is a single view / known segments followed by one
    segment of unknown length (valid when the total length is >= n)."""
    out = []
    for s in v.segs:
        if len(out) >= n:
            break
        k = determined_int(st.pc, seg_len(s))
        if k is None:
            if not isinstance(s, View):
                return None
            for i in range(n - len(out)):
                out.append(seg_item(st, s, i))
            return out
        for i in range(min(k, n - len(out))):
            out.append(seg_item(st, s, i))
    return out if len(out) == n else None


def int_eq(st, x, y):
    """Equality of two int-like values, bitwise when one side is a bit list and the other
    has a (cached or derivable) binary expansion - avoids comparing two linear sums."""
    x, y = norm(x), norm(y)
    if isinstance(x, SBits) or isinstance(y, SBits):
        try:
            bx, by = to_bits(st, x), to_bits(st, y)
            n = max(len(bx), len(by))
            bx += [False] * (n - len(bx))
            by += [False] * (n - len(by))
            return zand(*[_iff(p, q) for p, q in zip(bx, by)])
        except EngineUnsupported:
            pass
    return _int_eq(x, y)


def _iff(p, q):
    if isinstance(p, bool):
        return q if p else znot(q)
    if isinstance(q, bool):
        return p if q else znot(p)
    return p == q


def _int_eq(x, y):
    if isinstance(x, int) and isinstance(y, int):
        return x == y
    if isinstance(x, SBits) and isinstance(y, int) or isinstance(y, SBits) and isinstance(x, int):
        bits, c = (x.bits, y) if isinstance(x, SBits) else (y.bits, x)
        if c < 0 or c.bit_length() > len(bits):
            return False
        return zand(*[b if (c >> j) & 1 else znot(b) for j, b in enumerate(bits)])
    return int_term(x) == int_term(y)


# ----------------------------------------------------------------------------------------
def small_payint(st, v):
    """int.from_bytes of a view of determined length <= 8 bytes, as a bit list (arithmetic / comparison on it)."""
    if isinstance(v, SPayInt):
        n = determined_int(st.pc, v.view.length())
        if n is not None and n <= 8:
            bits = []
            for k in range(8 * n - 1, -1, -1):
                bits.append(v.bit_msb(k))
            return norm(SBits(bits))
        # length not determined but provably small (a slice clamped by the value's own length): case split on the length
        ln = v.view.length()
        for m in (1, 2, 3, 4, 8):
            if entails(st.pc, z3.And(ln >= 0, ln <= m)):
                t = z3.IntVal(0)
                for k in range(m, 0, -1):
                    val = z3.Sum([byte_at(st, v.view.arr, v.view.lo + i) * (256 ** (k - 1 - i)) for i in range(k)])
                    t = z3.If(ln == k, val, t)
                return SInt(t)
    return v


def compare(st, op, a, b):
    """Single comparison; returns bool / SBool."""
    a, b = small_payint(st, norm(a)), small_payint(st, norm(b))
    if a is UNDEF or b is UNDEF:
        raise EngineUnsupported("comparison of a havocked local without a declared kind")
    if op in (ast.Is, ast.IsNot):
        r = _is(a, b)
        return r if op is ast.Is else znot_v(r)
    if op in (ast.In, ast.NotIn):
        r = contains(st, b, a)
        return r if op is ast.In else znot_v(r)
    if not is_sym(a) and not is_sym(b):
        return PYCMP[op](a, b)
    if is_intb(a) and is_intb(b):
        if op is ast.Eq:
            return _wrapb(_int_eq(a, b))
        if op is ast.NotEq:
            return _wrapb(znot(_int_eq(a, b)))
        ta, tb = int_term(a), int_term(b)
        return _wrapb({ast.Lt: ta < tb, ast.LtE: ta <= tb, ast.Gt: ta > tb, ast.GtE: ta >= tb}[op])
    if isinstance(a, (bytes, bytearray, SBytes)) and isinstance(b, (bytes, bytearray, SBytes)):
        r = bytes_eq(st, a, b)
        if op is ast.Eq:
            return _wrapb(r)
        if op is ast.NotEq:
            return _wrapb(znot(r))
    if isinstance(a, (str, SStr, SOpaque)) and isinstance(b, (str, SStr, SOpaque)) and op in (ast.Eq, ast.NotEq):
        r = str_eq(st, a, b)
        return _wrapb(r if op is ast.Eq else znot(r))
    if (a is None) != (b is None) and op in (ast.Eq, ast.NotEq):
        return op is ast.NotEq
    if isinstance(a, SOpaque) and is_intb(b) or isinstance(b, SOpaque) and is_intb(a):
        # e.g. `val == 0` on a non-integer value
        if op is ast.Eq:
            return False
        if op is ast.NotEq:
            return True
    raise EngineUnsupported(f"compare {op.__name__} on {a!r}, {b!r}")


def _wrapb(r):
    if isinstance(r, bool):
        return r
    return norm(SBool(r))


def znot_v(r):
    if isinstance(r, bool):
        return not r
    return norm(SBool(z3.Not(bool_term(r))))


def _is(a, b):
    if a is None or b is None:
        if is_sym(a) or is_sym(b) or isinstance(a, Ref) or isinstance(b, Ref):
            return False
        return a is b
    if isinstance(a, Ref) and isinstance(b, Ref):
        return a.oid == b.oid
    if not is_sym(a) and not is_sym(b):
        return a is b or (isinstance(a, (bool, type(None))) and a == b)
    raise EngineUnsupported("`is` on symbolic values")


def str_eq(st, a, b):
    a, b = norm(a), norm(b)
    if isinstance(a, SOpaque) or isinstance(b, SOpaque):
        return _zstr(a) == _zstr(b)
    sa, sb = _ssegs(a), _ssegs(b)
    # structural comparison of segment lists; Fmt pieces are injective and contain no "_"
    # (DESIGN 1.5-2), so two lists with the same shape are equal iff their numbers agree
    if len(sa) == len(sb):
        conds = []
        ok = True
        for x, y in zip(sa, sb):
            if isinstance(x, str) and isinstance(y, str):
                if x != y:
                    return False
            elif isinstance(x, Fmt) and isinstance(y, Fmt) and x.spec == y.spec:
                conds.append(int_term(x.v) == int_term(y.v))
            else:
                ok = False
                break
        if ok:
            return zand(*conds)
    # pattern against a concrete string: Fmt pieces are runs of decimal digits
    if isinstance(a, str) or isinstance(b, str):
        conc, pat = (a, b) if isinstance(a, str) else (b, a)
        if isinstance(pat, SStr):
            import re
            rx = ""
            fm = []
            for seg in pat.segs:
                if isinstance(seg, str):
                    rx += re.escape(seg)
                elif isinstance(seg, Fmt):
                    mw = re.fullmatch(r"0?(\d*)d", seg.spec)
                    if mw is None:
                        rx = None
                        break
                    w = "{%d,}" % int(mw.group(1)) if mw.group(1) else "+"
                    rx += r"(\d" + w + ")"
                    fm.append(seg)
                else:
                    rx = None
                    break
            if rx is not None:
                m = re.fullmatch(rx, conc)
                if not m:
                    return False
                conds = []
                for seg, g in zip(fm, m.groups()):
                    if format(int(g), seg.spec) != g:
                        return False
                    conds.append(int_term(seg.v) == int(g))
                return zand(*conds)
    # try to concretise Fmt pieces
    ca, cb = concretise_str(st, a), concretise_str(st, b)
    if isinstance(ca, str) and isinstance(cb, str):
        return ca == cb
    raise EngineUnsupported(f"string equality {a!r} == {b!r}")


def pyformat(spec, n):
    return format(n, spec)


def concretise_str(st, s):
    if isinstance(s, str):
        return s
    out = []
    for seg in s.segs:
        if isinstance(seg, str):
            out.append(seg)
        else:
            v = determined_int(st.pc, int_term(seg.v))
            if v is None:
                return s
            out.append(pyformat(seg.spec, v))
    return "".join(out)


class PyRaises(Exception):
    """An operator that raises a Python exception on every path reaching it (e.g. hashing a bytearray)."""

    def __init__(self, cls, msg):
        super().__init__(msg)
        self.cls, self.msg = cls, msg


def unhashable(v):
    if isinstance(v, Ref):
        raise EngineUnsupported("hashability of a heap object")
    return (isinstance(v, SBytes) and v.mutable) or isinstance(v, (bytearray, list, dict, set))


def contains(st, container, item):
    if isinstance(container, (set, frozenset)):
        # membership in a set hashes the probe first: an unhashable probe (bytearray, list) raises TypeError, whatever the set holds
        if unhashable(item):
            raise PyRaises(TypeError, f"unhashable type: '{'bytearray' if isinstance(item, (SBytes, bytearray)) else 'object'}'")
        container = tuple(sorted(container, key=repr))
    if isinstance(container, (tuple, list)):
        res = False
        for x in container:
            res = zor(res, bool_term(compare(st, ast.Eq, item, x)) if is_sym(compare(st, ast.Eq, item, x)) else compare(st, ast.Eq, item, x))
        return _wrapb(res)
    if isinstance(container, dict) and not is_sym(item):
        return item in container
    if isinstance(container, dict) and isinstance(item, SStr):
        c = concretise_str(st, item)
        if isinstance(c, str):
            return c in container
        res = False
        for k in container:
            if isinstance(k, str):
                e = str_eq(st, item, k)
                res = zor(res, e)
        return _wrapb(res)
    if isinstance(container, SStr) and isinstance(item, str) and len(item) == 1 and not item.isdigit():
        # Fmt pieces are digits only
        return any(isinstance(sg, str) and item in sg for sg in container.segs)
    if isinstance(container, str) and isinstance(item, str):
        return item in container
    raise EngineUnsupported(f"`in` on {container!r}")
