"""Property-level driver: units -> verdicts -> replay -> evidence / exit code (DESIGN 2, 7)."""
from __future__ import annotations

import hashlib
import importlib
import json
import os
import subprocess
import sys
import time

from pyvc import extract, runner
from pyvc.contract import REGISTRY, TRUSTED

VERIF = os.path.dirname(os.path.dirname(os.path.abspath(__file__)))
OUT = os.environ.get("PYVC_OUT", VERIF)  # evidence/ and replays/ go here (seed runs redirect it)
EXIT_OK, EXIT_VIOLATION, EXIT_UNDECIDED, EXIT_ERROR = 0, 1, 2, 3
MAX_REPLAY_FILES_PER_FUNCTION = 3

PYTHON_ASSUMPTIONS = [
    "CPython 3.9-3.12 semantics for the modelled subset (DESIGN 1.3/1.5); ints unbounded; dict insertion order",
    "f'{i:02d}' for i>=0: digits only, injective, contains no '_' , int() inverts it (ground-checked 0..4095)",
    "int * float resolution is an uninterpreted function (no floating-point rounding is proved)",
    "MemoryError/RecursionError/KeyboardInterrupt out of scope",
    "parameter types as annotated; user errorhandler does not raise",
    "engine soundness: the ast->z3 executor in /verif/pyvc is itself unverified (cross-checked against CPython on seeded mutants, DESIGN 2.4)",
]


BASE_TRUSTED = [
    "the VC generator /verif/pyvc (ast -> z3), itself unverified: guarded by the translation cross-check, the symbolic-vs-concrete "
    "differential, the canary/cover vacuity guards and the seeded changes (DESIGN 11.6)",
    "z3 5.1 (primary) and cvc5 1.0.3 (on unknown; every obligation again in the thorough tier)",
    "Python semantics of the modelled subset, in particular: (P >> K) & (2^A - 1) on the payload integer reads A bits at bit offset "
    "len - K - A and raises ValueError for K < 0; unbounded ints; dict insertion order",
    "modular reasoning: a caller is checked against the callee's contract; sequence / loop induction as meta-rules",
    "extraction: docstrings, comments and annotations dropped; locals renamed back to the pinned names only when the function has "
    "exactly the pinned shape apart from those names (alpha-conversion, listed per function)",
]


def load_known():
    p = os.environ.get("PYVC_KNOWN_FINDINGS", os.path.join(VERIF, "known_findings.json"))
    if not os.path.exists(p):
        return []
    with open(p) as f:
        return json.load(f).get("findings", [])


def run_replay_subprocess(spec_name, payload):
    return run_replay_batch(spec_name, [payload])


def run_replay_batch(spec_name, inputs):
    """Run concrete checks of the real code in a fresh interpreter on $VERIF_REPO; returns the
    first failing result."""
    env = dict(os.environ)
    env["PYTHONPATH"] = VERIF + os.pathsep + extract.SRC
    p = subprocess.run([sys.executable, "-m", "pyvc.replay_worker", spec_name], input=json.dumps({"inputs": list(inputs)}),
                       capture_output=True, text=True, env=env, cwd=VERIF, timeout=600)
    if p.returncode != 0:
        return {"error": p.stderr[-2000:]}
    try:
        return json.loads(p.stdout.strip().splitlines()[-1])
    except Exception:  # noqa
        return {"error": "bad replay output: " + p.stdout[-500:] + p.stderr[-500:]}


def check_property(pid, tier="quick", seed=0):
    t0 = time.time()
    extract.ensure_path()  # candidate generators use the working tree's tables
    mod = importlib.import_module(f"props.{pid}")
    os.environ["PYVC_PROPERTY"] = pid  # replay searches may use clauses that only this property states
    units = mod.units(tier)
    # Soundness precondition of the modular argument, checked on every run of every property: each function is verified against
    # fresh objects, which speaks for all histories only if nothing in the code modules is shared between objects or calls
    # (no module-level or class-level mutable state, no mutable default arguments, no store whose root is not a local or self).
    if not any(u.name == "C13.frame_scan" for u in units):
        from props import C13 as _c13
        from props.common import ground_unit as _gu
        units.append(_gu("common.no_shared_mutable_state", _c13.scan))
    results = runner.run_units(units, tier)
    # A refutation (or a unit that left the subset) is confirmed under a ten times larger budget for the path-feasibility queries
    # before it is reported: a query that times out counts as 'feasible', and a really infeasible path can end in an obligation that
    # does not hold there.  On the unchanged tree nothing is re-run; a verdict that does not survive the re-run was an artefact of
    # machine load, and the re-run's result stands.
    from pyvc import state as _state
    shaky = {r["unit"] for r in results if r["kind"] == "func" and not r["error"]
             and ((r["unsupported"] and "path explosion" not in r["unsupported"])
                  or any(o["verdict"] != "proved" and o["kind"] != "cover" for o in r["obligations"]))}
    if shaky and _state.FEAS_MS < 4000 and len(shaky) <= 64:
        old_ms = _state.FEAS_MS
        _state.FEAS_MS = 4000
        try:
            redo = runner.run_units([u for u in units if u.name in shaky], tier)
        finally:
            _state.FEAS_MS = old_ms
        by_name = {r["unit"]: r for r in redo}
        results = [dict(by_name[r["unit"]], confirmed_with_larger_feasibility_budget=True) if r["unit"] in by_name else r for r in results]
    obs = fold_covers([o for r in results for o in r["obligations"]])
    errors = [r for r in results if r["error"]]
    unsupported = [r for r in results if r["unsupported"]]
    nocanary = [r for r in results if r["kind"] == "func" and not r["error"] and not r["unsupported"] and not r["canary"]]
    empty = [r for r in results if not r["error"] and not r["unsupported"] and not r["obligations"]]
    refuted = [o for o in obs if o["verdict"] == "refuted"]
    # a unit whose every path ends in a refuted obligation (e.g. it now always raises) has no postcondition state to be vacuous about
    nocanary = [r for r in nocanary if not any(o["verdict"] == "refuted" and o.get("unit") == r["unit"] for o in r["obligations"])]
    unknown = [o for o in obs if o["verdict"] == "unknown"]
    proved = [o for o in obs if o["verdict"] == "proved"]

    lines = []
    violations = 0
    known_hits = []
    known = [k for k in load_known() if k.get("property") == pid]
    replay_dir = os.path.join(OUT, "replays", pid)
    status = EXIT_OK

    # ---- refuted obligations: replay on the real code
    seen_keys = set()
    replay_cache = {}   # one concrete search per function under contract; further refuted obligations of it share the input
    per_fn = {}
    for o in refuted:
        fn = (o.get("unit") or o["name"]).split("[")[0]
        per_fn[fn] = per_fn.get(fn, 0) + 1
        if per_fn[fn] > MAX_REPLAY_FILES_PER_FUNCTION:
            continue  # counted in evidence (refuted), not written out again
        if fn not in replay_cache or o["kind"] in ("ground", "lemma"):
            try:
                if o["name"].startswith(("frame.", "api.")):  # the common obligations have their own replay searches
                    from props.replays import generic_replay as _gr
                    replay_cache[fn] = _gr(o, seed) or {}
                else:
                    replay_cache[fn] = (mod.replay(o, seed) if hasattr(mod, "replay") else None) or {}
            except Exception as e:  # noqa
                replay_cache[fn] = {"error": repr(e)}
        rep = replay_cache[fn]
        # a known finding is identified by the obligation (function + postcondition + instance) that fails, so that a
        # different violation of the same property is still reported
        key = o["name"]
        digest = hashlib.sha256((o["name"] + json.dumps(rep.get("input"), sort_keys=True, default=str)).encode()).hexdigest()[:10]
        os.makedirs(replay_dir, exist_ok=True)
        path = os.path.join(replay_dir, f"{safe(o['name'])}-{digest}.json")
        reproduced = bool(rep.get("reproduced"))
        with open(path, "w") as f:
            json.dump({
                "property": pid, "obligation": o["name"], "unit": o["unit"], "site": o["site"],
                "solver": o["solver"], "solver_seconds": o["seconds"], "model": o["model"],
                "solver_output": o.get("model_text"), "note": o.get("note"),
                "reproduced_on_real_code": reproduced, "replay_spec": rep.get("spec"),
                "input": rep.get("input"), "expected": rep.get("expected"), "observed": rep.get("observed"),
                "key": key, "replay_error": rep.get("error"), "repo": extract.REPO,
                "source_sha": extract.source_shas(),
                "rerun": f"python3-vt -m pyvc replay {os.path.relpath(path, OUT)}",
            }, f, indent=1, default=str)
        match = [k for k in known if k.get("status") == "open" and k.get("key") == key]
        if match and reproduced:
            if key not in seen_keys:
                lines.append(f"KNOWN-FINDING: property={pid} {match[0].get('what', key)}")
                known_hits.append(key)
            seen_keys.add(key)
            continue
        violations += 1
        status = EXIT_VIOLATION
        rel = os.path.relpath(path, OUT)
        if reproduced:
            lines.append(f"VIOLATION property={pid} replay={rel}")
        else:
            lines.append(f"VIOLATION property={pid} replay={rel} no-failing-input-found")

    # ---- functions that left the modelled subset (or lost their loop invariant): bounded search on
    # the same contract stands in; a failing input is a violation, otherwise the property is undecided
    incomplete = [r for r in results if r.get("incomplete")]
    pending = []
    seen_fns = set()  # one bounded search per function, however many of its instances are affected
    for r in unsupported + incomplete:
        fn = r["qualname"] or r["unit"]
        if fn not in seen_fns:
            seen_fns.add(fn)
            pending.append({"qualname": r["qualname"], "unit": r["unit"], "why": "function outside the modelled subset: " + str(r["unsupported"] or r.get("incomplete"))})
    for o in unknown:
        fn = o["unit"].split("[")[0]
        if fn not in seen_fns:
            seen_fns.add(fn)
            pending.append({"qualname": fn, "unit": o["unit"], "why": f"obligation {o['name']} undecided by both solvers"})
    for r in pending:
        if violations or not hasattr(mod, "replay"):
            break
        pseudo = {"name": r["qualname"] or r["unit"], "unit": r["unit"], "model": {}, "site": None, "solver": None,
                  "seconds": 0, "note": r["why"]}
        try:
            rep = mod.replay(pseudo, seed) or {}
        except Exception as e:  # noqa
            rep = {"error": repr(e)}
        if rep.get("reproduced"):
            os.makedirs(replay_dir, exist_ok=True)
            path = os.path.join(replay_dir, f"{safe(pseudo['name'])}-bounded-search.json")
            with open(path, "w") as f:
                json.dump({"property": pid, "obligation": pseudo["name"] + " (contract checked by bounded search: " + pseudo["note"] + ")", "note": pseudo["note"], "reproduced_on_real_code": True,
                           "replay_spec": rep.get("spec"), "input": rep.get("input"), "expected": rep.get("expected"),
                           "observed": rep.get("observed"), "key": rep.get("key"), "repo": extract.REPO}, f, indent=1, default=str)
            key = rep.get("key")
            match = [k for k in known if k.get("status") == "open" and k.get("key") == key]
            if match:
                lines.append(f"KNOWN-FINDING: property={pid} {match[0].get('what', key)}")
                continue
            violations += 1
            status = EXIT_VIOLATION
            lines.append(f"VIOLATION property={pid} replay={os.path.relpath(path, OUT)}")

    # ---- undecided / engine problems (never reported as violations)
    if status == EXIT_OK:
        if errors or nocanary or empty or not obs:
            status = EXIT_ERROR
        elif unknown or unsupported or incomplete:
            status = EXIT_UNDECIDED
    for r in errors:
        lines.append(f"CHECKER-ERROR property={pid} unit={r['unit']} (traceback in evidence)")
    for r in nocanary:
        lines.append(f"CHECKER-ERROR property={pid} unit={r['unit']} canary 'ensures False' was not refuted: contradictory hypotheses")
    for r in empty:
        lines.append(f"CHECKER-ERROR property={pid} unit={r['unit']} generated zero obligations")
    for r in unsupported:
        lines.append(f"UNDECIDED property={pid} unit={r['unit']} outside the modelled subset: {r['unsupported']}")
    for o in unknown:
        lines.append(f"UNDECIDED property={pid} obligation={o['name']} ({o['reason']})")
    for r in incomplete:
        lines.append(f"UNDECIDED property={pid} unit={r['unit']} proof incomplete: {'; '.join(r['incomplete'][:2])}")

    # ---- bounded stand-ins (labelled, never counted as proved)
    bounded = []
    if hasattr(mod, "bounded"):
        bounded = mod.bounded(tier, seed, results)
        for b in bounded:
            if b.get("violation"):
                key = b.get("key")
                match = [k for k in known if k.get("status") == "open" and k.get("key") == key]
                if match:
                    if key not in seen_keys:
                        lines.append(f"KNOWN-FINDING: property={pid} {match[0].get('what', key)}")
                        known_hits.append(key)
                        seen_keys.add(key)
                    continue
                violations += 1
                status = EXIT_VIOLATION
                lines.append(f"VIOLATION property={pid} replay={b['replay']}")

    # ---- engine self-validation (DESIGN 1.2 / 2.4): translation cross-check and symbolic-vs-concrete differential
    xcheck = None
    if (tier == "thorough" or pid in ("C03",)) and not os.environ.get("PYVC_NO_SELFTEST"):
        try:
            from pyvc import crosscheck, diffcheck
            big = tier == "thorough"
            progs, ncmp, mism = crosscheck.run(seed, 60 if big else 6)
            ncmp2, mism2 = crosscheck.run_sequences(seed, 25 if big else 4)
            ncmp3, mism3 = diffcheck.run(seed, 80 if big else 12, 3)
            xcheck = {"programs": progs + 6, "comparisons": ncmp + ncmp2 + ncmp3, "mismatches": (mism + mism2 + mism3)[:5],
                      "what": "engine-as-interpreter (calls inlined) vs CPython on concrete inputs; symbolic leaf terms evaluated under "
                              "concrete inputs vs the real leaf"}
            if mism or mism2 or mism3:
                status = EXIT_ERROR
                lines.append(f"CHECKER-ERROR property={pid} engine cross-check disagrees with CPython on {len(mism + mism2 + mism3)} case(s) (see evidence)")
        except Exception as e:  # noqa
            xcheck = {"error": repr(e)[:300]}
            status = EXIT_ERROR if status == EXIT_OK else status
            lines.append(f"CHECKER-ERROR property={pid} engine cross-check crashed: {e!r}"[:300])
    write_evidence.xcheck = xcheck
    selftest = seeded_selftest(pid) if tier == "thorough" and not os.environ.get("PYVC_NO_SELFTEST") else None
    wall = time.time() - t0
    write_evidence.selftest = selftest
    write_evidence(pid, tier, seed, mod, units, results, obs, proved, refuted, unknown, unsupported, errors,
                   bounded, violations, known_hits, wall)
    for ln in lines:
        print(ln)
    nb = sum(1 for b in bounded if not b.get("violation"))
    print(f"[{pid}] tier={tier} units={len(units)} obligations={len(obs)} proved={len(proved)} refuted={len(refuted)} "
          f"unknown={len(unknown)} unsupported={len(unsupported)} errors={len(errors)} bounded_checks={len(bounded)} "
          f"wall={wall:.1f}s exit={status}")
    return status


def fold_covers(obs):
    """Reachability (cover) obligations are existential over paths: one per name, satisfied if
    any path satisfies it."""
    out, covers = [], {}
    for o in obs:
        if o["kind"] != "cover":
            out.append(o)
            continue
        best = covers.get(o["name"])
        rank = {"proved": 2, "unknown": 1, "refuted": 0}
        if best is None or rank[o["verdict"]] > rank[best["verdict"]]:
            covers[o["name"]] = o
    for o in covers.values():
        if o["verdict"] == "refuted":
            o["note"] = "vacuity guard: no path reaches this point - the contract's hypotheses exclude it"
        out.append(o)
    return out


def seeded_selftest(pid):
    """Thorough tier (DESIGN 2.4): every seeded change filed for this property under /verif/seeded is applied to a scratch copy
    of the working tree and the quick check is run against it; it must report a violation.  A miss is recorded as a gap."""
    import glob
    import shutil
    import tempfile
    out = []
    for d in sorted(glob.glob(os.path.join(VERIF, "seeded", f"{pid}-mut*"))):
        tmp = tempfile.mkdtemp(prefix="pyvc_selftest_")
        try:
            shutil.copytree(os.path.join(extract.REPO, "src"), os.path.join(tmp, "src"))
            a = subprocess.run(["git", "apply", os.path.join(d, "patch.diff")], cwd=tmp, capture_output=True, text=True)
            if a.returncode != 0:
                out.append({"seed": os.path.basename(d), "result": "patch does not apply to this tree"})
                continue
            env = dict(os.environ, VERIF_REPO=tmp, PYVC_OUT=os.path.join(tmp, "out"), PYVC_NO_SELFTEST="1")
            r = subprocess.run([sys.executable, "-m", "pyvc", "check", pid, "--tier", "quick"], cwd=VERIF, env=env, capture_output=True, text=True)
            viol = [l for l in r.stdout.splitlines() if l.startswith("VIOLATION")]
            out.append({"seed": os.path.basename(d), "exit": r.returncode, "caught": r.returncode == 1 and bool(viol),
                        "first_line": (viol or [""])[0][:200]})
        finally:
            shutil.rmtree(tmp, ignore_errors=True)
    return out


def safe(s):
    return "".join(c if c.isalnum() or c in "._-[]" else "_" for c in s)[:120]


def write_evidence(pid, tier, seed, mod, units, results, obs, proved, refuted, unknown, unsupported, errors,
                   bounded, violations, known_hits, wall):
    by_solver = {}
    secs = {}
    for o in obs:
        by_solver[o["solver"]] = by_solver.get(o["solver"], 0) + 1
        secs[o["solver"]] = round(secs.get(o["solver"], 0) + o["seconds"], 3)
    funcs = {}
    for r in results:
        if r["kind"] == "func":
            fi = extract.func(r["qualname"])
            d = funcs.setdefault(r["qualname"], {"file": os.path.relpath(fi.file, extract.REPO), "line": fi.lineno,
                                                 "sha256": fi.sha, "units": 0, "obligations": 0, "paths": 0})
            if getattr(fi, "alpha", None):
                d["locals_renamed_back_before_execution"] = fi.alpha  # same shape as pinned, names differ (extract.py)
            d["units"] += 1
            d["obligations"] += len(r["obligations"])
            d["paths"] += r.get("stats", {}).get("paths", 0)
    samples = []
    for o in (refuted + unknown + proved)[:8]:
        samples.append({k: o[k] for k in ("name", "unit", "verdict", "solver", "seconds", "nhyps")})
    slow = sorted(obs, key=lambda o: -o["seconds"])[:3]
    trusted = BASE_TRUSTED + sorted(set(getattr(mod, "TRUSTED", [])) | {f"{q}: {t}" for q, t in TRUSTED.items() if q in getattr(mod, "USES_EXTERNAL", [])})
    kinds = {}
    for o in obs:
        kinds[o["kind"]] = kinds.get(o["kind"], 0) + 1
    level = getattr(mod, "LEVEL", "proof")
    cov = {
        "obligations": len(obs),
        "discharged": len(proved),
        "refuted": len(refuted),
        "unknown": len(unknown),
        "checker_cmd": f"python3-vt -m pyvc check {pid} --tier {tier}",
        "trusted_base": trusted,
        "by_back_end": by_solver,
        "by_obligation_kind": kinds,
        "solver_seconds": secs,
        "slowest": [{"name": o["name"], "seconds": o["seconds"]} for o in slow],
        "units": len(units),
        "functions_under_contract": funcs,
        "unsupported_units": [{"unit": r["unit"], "why": r["unsupported"]} for r in unsupported],
        "engine_errors": [{"unit": r["unit"], "traceback": r["error"][-1500:]} for r in errors],
        "bounded_obligations": [{k: v for k, v in b.items() if k != "violation"} for b in bounded],
        "argued_corollaries": getattr(mod, "ARGUED", []),
        "seeded_selftest": getattr(write_evidence, "selftest", None),
        "engine_crosscheck": getattr(write_evidence, "xcheck", None),
        "known_findings_hit": known_hits,
        "samples": samples,
        "explanation": getattr(mod, "EXPLANATION", ""),
        "source_sha256": extract.source_shas(),
        "repo": extract.REPO,
    }
    if bounded:
        cov["evaluations"] = sum(b.get("evaluations", 0) for b in bounded)
    ev = {
        "property_id": pid, "tier": tier, "seed": seed, "level": level, "coverage": cov,
        "assumptions": PYTHON_ASSUMPTIONS + list(getattr(mod, "ASSUMPTIONS", [])),
        "wall_s": round(wall, 2), "violations": violations,
    }
    os.makedirs(os.path.join(OUT, "evidence"), exist_ok=True)
    with open(os.path.join(OUT, "evidence", f"{pid}.json"), "w") as f:
        json.dump(ev, f, indent=1, default=str)
