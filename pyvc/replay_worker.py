"""Runs concrete checks of the real code (fresh interpreter, $VERIF_REPO/src on the path).
stdin: JSON {"inputs": [..]}; argv[1]: name of the concrete check in spec.concrete.CHECKS.
Prints the first failing input's result, or {"fails": false, "tried": n}."""
import json
import sys
import traceback


def main():
    from spec import concrete
    name = sys.argv[1]
    payload = json.loads(sys.stdin.read())
    inputs = payload["inputs"]
    fn = concrete.CHECKS[name]
    errs = 0
    for i, inp in enumerate(inputs):
        try:
            res = fn(inp)
        except Exception:  # noqa
            errs += 1
            last = traceback.format_exc()[-800:]
            continue
        if res.get("fails"):
            res["index"] = i
            res["input"] = inp
            print(json.dumps(res, default=str))
            return
    out = {"fails": False, "tried": len(inputs), "oracle_errors": errs}
    if errs:
        out["last_error"] = last
    print(json.dumps(out, default=str))


if __name__ == "__main__":
    main()
