"""python3-vt -m pyvc  check Cxx [--tier quick|thorough] | replay <path> | setup | list"""
import argparse
import json
import os
import sys

VERIF = os.path.dirname(os.path.dirname(os.path.abspath(__file__)))


def main(argv):
    if VERIF not in sys.path:
        sys.path.insert(0, VERIF)
    ap = argparse.ArgumentParser(prog="pyvc")
    sub = ap.add_subparsers(dest="cmd", required=True)
    c = sub.add_parser("check")
    c.add_argument("pid")
    c.add_argument("--tier", default=os.environ.get("VERIF_TIER", "quick"))
    r = sub.add_parser("replay")
    r.add_argument("path")
    sub.add_parser("setup")
    a = ap.parse_args(argv)
    if a.cmd == "setup":
        return setup()
    if a.cmd == "check":
        from pyvc import check
        import contracts  # noqa: registers all sidecar contracts
        seed = int(os.environ.get("VERIF_SEED", "0") or 0)
        tier = a.tier if a.tier in ("quick", "thorough") else "quick"
        try:
            return check.check_property(a.pid, tier, seed)
        except Exception:  # noqa
            import traceback
            traceback.print_exc()
            print(f"CHECKER-ERROR property={a.pid} driver crashed")
            return 3
    if a.cmd == "replay":
        from pyvc import check
        with open(a.path) as f:
            rep = json.load(f)
        if not rep.get("replay_spec"):
            print("no concrete replay recorded for this obligation (no-failing-input-found); solver output:")
            print(rep.get("solver_output"))
            return 1
        res = check.run_replay_subprocess(rep["replay_spec"], rep["input"])
        print(json.dumps(res, indent=1, default=str))
        return 1 if res.get("fails") else 0
    return 3


def setup():
    import shutil
    import subprocess
    ok = True
    try:
        import z3
        print("z3", z3.get_version_string())
    except Exception as e:  # noqa
        print("z3 python API missing:", e)
        ok = False
    for tool in ("/usr/bin/cvc5",):
        if not os.path.exists(tool):
            print("missing", tool)
            ok = False
    repo = os.environ.get("VERIF_REPO", "/repo")
    if not os.path.isdir(os.path.join(repo, "src", "pyrtcm")):
        print("no pyrtcm sources under", repo)
        ok = False
    os.makedirs(os.path.join(VERIF, "evidence"), exist_ok=True)
    os.makedirs(os.path.join(VERIF, "replays"), exist_ok=True)
    print("setup ok" if ok else "setup FAILED")
    return 0 if ok else 1
