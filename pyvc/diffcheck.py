"""Symbolic-vs-concrete differential check of the leaf encoding (engine soundness guard).

For sampled data fields the leaf  _set_attribute_single  is executed SYMBOLICALLY (exactly as for
the proof), then a random concrete input (payload bytes, offset, indices) is imposed on the
resulting path conditions; exactly one path must remain satisfiable, and the value / offset
terms of that path, evaluated in the model, must equal what the REAL function computes on that
input.  A disagreement means the ast->z3 encoding is wrong: CHECKER-ERROR, never a violation.
"""
import random

import z3

from pyvc import extract
from pyvc.contract import REGISTRY
from pyvc.ops import norm
from pyvc.state import State
from pyvc.symex import Engine, Return, select_n
from pyvc.values import HList, RaiseExc, SBits, SBytes, SInt, SOpaque, SPayInt, bits_to_int, int_term
from contracts.message import M, generic_payload, new_message

Q = M + "._set_attribute_single"


def real_leaf(anam, payload, offset, idx):
    import pyrtcm
    msg = object.__new__(pyrtcm.RTCMMessage)
    object.__setattr__(msg, "_immutable", False)
    msg._payload = payload
    msg._payloadi = int.from_bytes(payload, "big")
    msg._payblen = len(payload) * 8
    msg._labelmsm = 1
    msg._unknown = False
    msg._satmap = None
    msg._cellmap = None
    try:
        off = msg._set_attribute_single(anam, offset, list(idx))
    except Exception as e:  # noqa
        return ("raise", type(e).__name__), None
    name = anam + "".join("_%02d" % i for i in idx if i > 0)
    return ("ok", off), msg.__dict__.get(name, msg.__dict__.get(anam))


def run(seed=0, nfields=40, per_field=3):
    extract.ensure_path()
    C = extract.module("pyrtcm.rtcmtypes_core")
    rnd = random.Random(seed)
    names = [k for k, v in C.RTCM_DATA_FIELDS.items() if v[0] not in ("PRN", "CPR", "CSG", "STR") and k not in ("DF396", "IDF038")]
    rnd.shuffle(names)
    mism = []
    comparisons = 0
    for anam in names[:nfields]:
        typ, width, res, _ = C.RTCM_DATA_FIELDS[anam]
        depth = rnd.choice([0, 1, 2])
        eng = Engine(REGISTRY)
        st = State()
        pv = generic_payload(st, "p", minlen=0)
        selfv = new_message(st, SBytes([pv]), labelmsm=SInt(z3.Int("labelmsm")))
        o = st.obj(selfv)
        o.symbolic_pre = True
        o.fields.update({"_payloadi": SPayInt(pv), "_payblen": SInt(8 * pv.length()), "_unknown": False, "_satmap": None, "_cellmap": None})
        off = z3.Int("offset")
        st.assume(off >= 0)
        idx = [z3.Int(f"ix{j}") for j in range(depth)]
        for t in idx:
            st.assume(t >= 1)
        index = st.alloc(HList([SInt(t) for t in idx]))
        fi = extract.func(Q)
        outs = eng.exec_function(fi, st, {"self": selfv, "anam": anam, "offset": SInt(off), "index": index}, contract=REGISTRY[Q])
        for _ in range(per_field):
            n = rnd.randrange(0, 12)
            payload = bytes(rnd.randrange(256) for _ in range(n))
            o_c = rnd.randrange(0, 8 * n + 9)
            if rnd.random() < 0.3:
                o_c = max(0, 8 * n - width + rnd.choice([-1, 0, 1]))
            idx_c = [rnd.choice([1, 2, 9, 10, 99, 100, 123]) for _ in range(depth)]
            cons = [pv.lo == 0, pv.hi == n, off == o_c] + [t == v for t, v in zip(idx, idx_c)]
            for i in range(n):
                cons.append(pv.arr.f(z3.IntVal(i)) == payload[i])
                for j in range(8):
                    cons.append(pv.arr.bit(z3.IntVal(8 * i + j)) == z3.BoolVal(bool((payload[i] >> (7 - j)) & 1)))
            sat_paths = []
            for s, out in outs:
                sol = z3.Solver()
                sol.set("timeout", 20000)
                for h in s.pc:
                    sol.add(h)
                for c in cons:
                    sol.add(c)
                r = sol.check()
                if r == z3.sat:
                    sat_paths.append((s, out, sol.model()))
                elif r != z3.unsat:
                    sat_paths.append((s, out, None))
            real_out, real_val = real_leaf(anam, payload, o_c, idx_c)
            comparisons += 1
            case = {"field": anam, "payload": payload.hex(), "offset": o_c, "index": idx_c}
            if len(sat_paths) != 1 or sat_paths[0][2] is None:
                mism.append(dict(case, problem=f"{len(sat_paths)} symbolic paths admit this concrete input (expected exactly 1)"))
                continue
            s, out, model = sat_paths[0]
            if isinstance(out, RaiseExc):
                if real_out[0] != "raise":
                    mism.append(dict(case, engine=f"raises {out.cls.__name__}", cpython=str(real_out)))
                continue
            if real_out[0] != "ok":
                mism.append(dict(case, engine="returns", cpython=str(real_out)))
                continue
            e_off = model.eval(int_term(out.v), model_completion=True).as_long()
            if e_off != real_out[1]:
                mism.append(dict(case, engine=f"offset {e_off}", cpython=f"offset {real_out[1]}"))
                continue
            ent = s.obj(selfv).attrs.get((anam, depth))
            if ent is None:
                mism.append(dict(case, problem="no attribute entry written on the engine side"))
                continue
            v = norm(ent.val) if depth == 0 else None
            if depth > 0:
                t = select_n(ent.val, [z3.IntVal(x) for x in idx_c])
            elif isinstance(v, SOpaque):
                t = v.t
            elif isinstance(v, (int, str, float)):
                t = None
            else:
                t = int_term(v)
            if t is None:
                ev = v
            else:
                t = z3.simplify(z3.substitute(t, *[(a, z3.IntVal(b)) for a, b in zip(idx, idx_c)])) if idx else z3.simplify(t)
                dn = t.decl().name() if z3.is_app(t) else ""
                if dn.startswith("pymul_"):
                    ev = model.eval(t.arg(0), model_completion=True).as_long() * res
                elif dn == "py_chr":
                    ev = chr(model.eval(t.arg(0), model_completion=True).as_long())
                else:
                    ev = model.eval(t, model_completion=True)
                    if z3.is_int_value(ev):
                        ev = ev.as_long()
                    elif z3.is_string_value(ev):
                        ev = ev.as_string()
                    else:
                        ev = f"<unevaluated {ev}>"
            if ev != real_val:
                mism.append(dict(case, engine=repr(ev)[:80], cpython=repr(real_val)[:80]))
    return comparisons, mism
