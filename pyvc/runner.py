"""Runs units (symbolic execution + solving) in a 16-way process pool (DESIGN 1.6)."""
from __future__ import annotations

import multiprocessing as mp
import os
import subprocess
import tempfile
import time
import traceback
import z3

from pyvc.contract import REGISTRY
from pyvc.state import Obligation
from pyvc.values import EngineUnsupported

MAX_BAD_PER_UNIT = 3  # after this many undischarged obligations in one unit the rest are skipped (they
# would only repeat the same failure at solver-timeout cost); the unit is already not verified
_UNITS = []
_TIER = "quick"


def budget_ms():
    return 60000 if _TIER == "quick" else 300000


def solve(ob, timeout_ms=None, second_solver=False):
    """Discharge one obligation: hyps |= goal.  verdict in proved/refuted/unknown."""
    timeout_ms = timeout_ms or budget_ms()
    t0 = time.time()
    s = z3.Solver()
    s.set("timeout", timeout_ms)
    for h in ob.hyps:
        s.add(h)
    if ob.kind == "cover":
        # reachability obligation: hyps and goal must be satisfiable together (vacuity guard)
        s.add(ob.goal)
        r = s.check()
        ob.solver = "z3"
        ob.verdict = "proved" if r == z3.sat else ("refuted" if r == z3.unsat else "unknown")
        ob.reason = None if r != z3.unknown else s.reason_unknown()
        ob.seconds = time.time() - t0
        return ob
    s.add(z3.Not(ob.goal))
    hints = getattr(ob, "hints", None)
    if hints:
        s.set("timeout", min(timeout_ms, 15000))  # quick attempt first; profiles next; full budget last
    r = s.check()
    ob.solver = "z3"
    if r == z3.unsat:
        ob.verdict = "proved"
    elif r == z3.sat:
        ob.verdict = "refuted"
        m = s.model()
        ob.model = {}
        for k, t in (ob.observe or {}).items():
            try:
                ob.model[k] = model_value(m, t)
            except Exception as e:  # noqa
                ob.model[k] = f"<{e}>"
        ob.model_text = trunc(str(m), 4000)
    else:
        ob.verdict = "unknown"
        ob.reason = s.reason_unknown()
        # counterexample search under concrete input profiles: sat with extra constraints is still sat
        for prof in (getattr(ob, "hints", None) or []):
            s2 = z3.Solver()
            s2.set("timeout", 10000)
            for h in ob.hyps:
                s2.add(h)
            s2.add(z3.Not(ob.goal))
            for h in prof:
                s2.add(h)
            if s2.check() == z3.sat:
                ob.verdict, ob.solver = "refuted", "z3+profile"
                m = s2.model()
                ob.model = {}
                for k, t in (ob.observe or {}).items():
                    try:
                        ob.model[k] = model_value(m, t)
                    except Exception as e:  # noqa
                        ob.model[k] = f"<{e}>"
                ob.model_text = trunc(str(m), 4000)
                ob.seconds = time.time() - t0
                return ob
        if hints:  # full-budget retry before the second solver
            s.set("timeout", timeout_ms)
            r = s.check()
            if r == z3.unsat:
                ob.verdict = "proved"
                ob.seconds = time.time() - t0
                return ob
            if r == z3.sat:
                ob.verdict = "refuted"
                ob.model = {}
                ob.model_text = trunc(str(s.model()), 4000)
                ob.seconds = time.time() - t0
                return ob
        # second solver on the same SMT-LIB text
        r2, out = cvc5_check(s, timeout_ms)
        if r2 == "unsat":
            ob.verdict, ob.solver = "proved", "cvc5"
        elif r2 == "sat":
            ob.verdict, ob.solver = "refuted", "cvc5"
            ob.model = {}
            ob.model_text = trunc(out, 4000)
        else:
            ob.reason = f"z3: {ob.reason}; cvc5: {trunc(out, 200)}"
    if second_solver and ob.verdict == "proved" and ob.solver == "z3":
        r2, out = cvc5_check(s, timeout_ms)
        ob.recheck = r2
    ob.seconds = time.time() - t0
    return ob


def trunc(s, n):
    return s if len(s) <= n else s[:n] + "..."


def model_value(m, t):
    if isinstance(t, (int, str, bool)) or t is None:
        return t
    if isinstance(t, list):
        return [model_value(m, x) for x in t]
    v = m.eval(t, model_completion=True)
    if z3.is_int_value(v):
        return v.as_long()
    if z3.is_true(v):
        return True
    if z3.is_false(v):
        return False
    if z3.is_string_value(v):
        return v.as_string()
    return str(v)


def cvc5_check(solver, timeout_ms):
    try:
        text = solver.to_smt2()
    except Exception as e:  # noqa
        return "error", str(e)
    text = "(set-logic ALL)\n" + text
    with tempfile.NamedTemporaryFile("w", suffix=".smt2", delete=False, dir=os.environ.get("PYVC_TMP", None)) as f:
        f.write(text)
        path = f.name
    try:
        p = subprocess.run(["/usr/bin/cvc5", "--lang", "smt2", "--strings-exp", f"--tlimit={timeout_ms}", path],
                           capture_output=True, text=True, timeout=timeout_ms / 1000 + 10)
        out = (p.stdout + p.stderr).strip()
        first = out.splitlines()[0].strip() if out else ""
        if first in ("sat", "unsat"):
            return first, out
        return "unknown", out
    except subprocess.TimeoutExpired:
        return "unknown", "timeout"
    finally:
        try:
            os.unlink(path)
        except OSError:
            pass


def ob_record(ob, unit):
    return {
        "name": ob.name, "unit": unit.name, "kind": ob.kind, "site": ob.site, "verdict": ob.verdict,
        "solver": ob.solver, "seconds": round(ob.seconds, 4), "model": ob.model,
        "model_text": getattr(ob, "model_text", None), "reason": ob.reason, "note": ob.note,
        "recheck": getattr(ob, "recheck", None), "nhyps": len(ob.hyps),
    }


def run_unit(idx):
    """One unit; a unit that left the modelled subset through a *havocked local* is tried once more with a ten times larger
    budget for the path-feasibility queries: under heavy machine load a 400 ms query can time out, a timed-out query counts as
    'feasible', and the spurious path then reads a local that the real paths always define."""
    from pyvc import state as _state
    rec = _run_unit_once(idx)
    if rec.get("unsupported") and any(w in rec["unsupported"] for w in ("havocked", "undefined")) and _state.FEAS_MS < 4000:
        old = _state.FEAS_MS
        _state.FEAS_MS = 4000
        try:
            rec2 = _run_unit_once(idx)
        finally:
            _state.FEAS_MS = old
        rec2["retried_with_larger_feasibility_budget"] = True
        return rec2
    return rec


def _run_unit_once(idx):
    unit = _UNITS[idx]
    t0 = time.time()
    rec = {"unit": unit.name, "kind": unit.kind, "qualname": unit.qualname, "obligations": [], "error": None,
           "unsupported": None, "canary": None, "stats": {}, "incomplete": []}
    try:
        if unit.kind == "func":
            from pyvc.symex import Engine
            c = REGISTRY[unit.qualname]
            eng = Engine(REGISTRY)
            canary_states = c.verify(eng, unit.inst) or []
            nbad = 0
            profiles = getattr(c, "hint_profiles", None)
            profiles = profiles() if profiles else None
            skip = getattr(unit, "skip_obligations", None) or ()
            for ob in eng.obligations:
                if skip and ob.kind != "cover" and any(x in ob.name for x in skip):
                    rec["not_needed_by_this_property"] = rec.get("not_needed_by_this_property", 0) + 1
                    continue  # an obligation of this function's contract that the property at hand does not rest on
                if profiles:
                    ob.hints = profiles
                if nbad >= MAX_BAD_PER_UNIT:
                    rec["skipped"] = rec.get("skipped", 0) + 1
                    continue
                solve(ob, second_solver=(_TIER == "thorough"))
                rec["obligations"].append(ob_record(ob, unit))
                if ob.verdict != "proved" and ob.kind != "cover":
                    nbad += 1
            # canary: `ensures False` must be refuted on at least one path
            can = False
            hints = getattr(c, "canary_hints", None)
            for st in canary_states:
                s = z3.Solver()
                s.set("timeout", 20000)
                for h in st.pc:
                    s.add(h)
                if hints:  # a concrete witness for the inputs makes the satisfiability check an evaluation
                    for h in hints():
                        s.add(h)
                if s.check() == z3.sat:
                    can = True
                    break
            # paths abandoned at a failed invariant (reported as refuted obligations) reach no postcondition state: no canary there
            rec["canary"] = can or (getattr(eng, "abandoned", 0) > 0 and nbad > 0)
            rec["stats"] = eng.stats
            rec["incomplete"] = list(eng.incomplete)
        elif unit.kind == "lemma":
            for ob in unit.fn():
                solve(ob, second_solver=(_TIER == "thorough"))
                rec["obligations"].append(ob_record(ob, unit))
            rec["canary"] = True
        elif unit.kind == "ground":
            for (name, ok, detail) in unit.fn():
                rec["obligations"].append({
                    "name": name, "unit": unit.name, "kind": "ground", "site": None,
                    "verdict": "proved" if ok else "refuted", "solver": "eval", "seconds": 0.0,
                    "model": detail if not ok else None, "model_text": None, "reason": None, "note": None,
                    "recheck": None, "nhyps": 0})
            rec["canary"] = True
    except EngineUnsupported as e:
        rec["unsupported"] = str(e)
    except KeyError as e:
        rec["error"] = (f"sidecar contract refers to local {e} which the function no longer has (renamed or removed?) - the contract "
                        "needs updating; this is not a verdict about the property\n") + traceback.format_exc()
    except Exception:  # noqa
        rec["error"] = traceback.format_exc()
    rec["seconds"] = round(time.time() - t0, 3)
    return rec


def run_units(units, tier="quick", jobs=None):
    global _UNITS, _TIER
    _UNITS = list(units)
    _TIER = tier
    jobs = jobs or int(os.environ.get("PYVC_JOBS", "16"))
    if jobs <= 1 or len(_UNITS) <= 1:
        return [run_unit(i) for i in range(len(_UNITS))]
    ctx = mp.get_context("fork")
    with ctx.Pool(min(jobs, len(_UNITS))) as pool:
        return pool.map(run_unit, range(len(_UNITS)), chunksize=1)
