"""Forward, path-splitting symbolic executor over the real AST (DESIGN 1.1-1.3)."""
from __future__ import annotations

import ast
import os
import builtins as pybuiltins
import z3

from pyvc import extract, ops
from pyvc.ops import Cases, compare, norm, truth, unop
from pyvc.state import (
    NoMerge, Obligation, State, byte_at, determined_int, entails, feasible, merge_states,
)
from pyvc.values import (
    AttrEntry, EngineUnsupported, ExcValue, Fmt, HDict, HList, HMap, HObject, Items, RaiseExc,
    Ref, SBits, SBool, SBytes, SInt, SOpaque, SStr, Sym, UNDEF, View, as_sbytes, bool_term,
    fresh_name, int_term, sort_of_kind, zand, znot, zor,
)


class SomeException(Exception):
    """Marker: 'some subclass of Exception, not further known'."""


class Return:
    def __init__(self, v):
        self.v = v


class Break:
    pass


class Continue:
    pass


class BoundMethod:
    def __init__(self, qualname, selfv):
        self.qualname = qualname
        self.selfv = selfv


class FuncRef:
    def __init__(self, qualname):
        self.qualname = qualname


class ClassRef:
    def __init__(self, qualname, pycls):
        self.qualname = qualname
        self.pycls = pycls


class LoggerVal:
    pass


class SuperProxy:
    def __init__(self, selfv):
        self.selfv = selfv


class PyBoundBuiltin:
    """method of an engine value, e.g. list.append, dict.get, str.split."""

    def __init__(self, recv, name):
        self.recv = recv
        self.name = name


class SRange:
    def __init__(self, lo, hi):
        self.lo = lo
        self.hi = hi


class LoopSpec:
    """Sidecar loop annotation, keyed by function + loop ordinal."""

    def __init__(self, invariant=None, kinds=None, facts=None, unroll=False, havoc=None, index=None, checkpoint=False, variant=None):
        self.variant = variant  # (eng, st) -> Int term: bounded below by 0 whenever the body is entered, strictly smaller at every
        # back edge (termination; while loops only)
        self.checkpoint = checkpoint  # constant-bounded loop: unrolled, but the invariant is asserted and
        # re-installed (by substitution through `kinds`) after every iteration so that terms stay small
        self.invariant = invariant  # (eng, st, k) -> [(name, Bool)]
        self.kinds = kinds or {}  # var -> 'int'|'bool'| callable(eng, st)->value
        self.facts = facts  # (eng, st, k) -> [Bool]  definitional instances
        self.unroll = unroll
        self.havoc = havoc  # (eng, st) -> None : havoc heap/ghost parts the loop modifies
        self.index = index  # name of a ghost index for while loops (optional)


UNROLL = 3


class Engine:
    def __init__(self, contracts, attr_kind=None, inline=False):
        self.inline = inline  # translation cross-check mode: calls into pyrtcm are executed, not replaced by contracts
        self.contracts = contracts  # qualname -> Contract
        self.obligations = []
        self.cur = None  # FuncInfo being executed
        self.cur_contract = None
        self.loop_ord = 0
        self.attr_kind = attr_kind or default_attr_kind
        self.stats = {"paths": 0, "forks": 0, "merges": 0}
        import time as _t
        self.t_start = _t.time()
        self.budget = float(os.environ.get("PYVC_SYMEX_BUDGET", "420"))
        self.bases = None
        self.incomplete = []  # loops explored only up to UNROLL iterations (no invariant available)

    # ------------------------------------------------------------------ obligations
    def oblige(self, name, st, goal, kind="post", site=None, observe=None, note=None):
        if goal is True:
            goal = z3.BoolVal(True)
        if goal is False:
            goal = z3.BoolVal(False)
        ob = Obligation(name, st.pc, goal, kind=kind, site=site, observe=observe, note=note)
        self.obligations.append(ob)
        return ob

    def cover(self, name, st, cond=True):
        """Vacuity guard: this point must be reachable (with cond)."""
        return self.oblige(name, st, cond, kind="cover")

    # ------------------------------------------------------------------ forking helpers
    def check_budget(self):
        """Symbolic execution of one unit is given a wall-clock budget (PYVC_SYMEX_BUDGET seconds, default 420): code whose paths
        cannot be merged (e.g. 65 independent undetermined tests in a row) is declared outside the modelled subset - UNDECIDED plus
        the bounded search - instead of running for hours."""
        import time as _t
        if not hasattr(self, "t_start"):
            self.t_start = _t.time()
            self.budget = float(os.environ.get("PYVC_SYMEX_BUDGET", "420"))
        if _t.time() - self.t_start > self.budget:
            raise EngineUnsupported(f"path explosion: symbolic execution of this unit exceeded {int(self.budget)} s "
                                    f"({self.stats['forks']} forks, {self.stats['paths']} paths)")

    def branch(self, st, cond):
        """cond: bool | z3 Bool -> list of (state, bool)."""
        if isinstance(cond, SBool):
            cond = cond.t
        if isinstance(cond, bool):
            return [(st, cond)]
        c = z3.simplify(cond)
        if z3.is_true(c):
            return [(st, True)]
        if z3.is_false(c):
            return [(st, False)]
        out = []
        ft = feasible(st.pc, c)
        ff = feasible(st.pc, z3.Not(c))
        if ft and ff:
            self.stats["forks"] += 1
            self.check_budget()
            s1 = st.fork()
            s1.assume(c)
            s2 = st
            s2.assume(z3.Not(c))
            return [(s1, True), (s2, False)]
        if ft:
            st.assume(c)
            return [(st, True)]
        if ff:
            st.assume(z3.Not(c))
            return [(st, False)]
        return []  # infeasible path

    def split(self, st, v):
        """Expand a Cases value into (state, value) pairs."""
        if not isinstance(v, Cases):
            return [(st, v)]
        if getattr(v, "outs", None) is not None:
            return v.outs
        out = []
        live = []
        for g, val in v.cases:
            if g is True:
                live.append((g, val))
            elif g is False:
                continue
            else:
                gs = z3.simplify(bool_term(g))
                if z3.is_false(gs):
                    continue
                if z3.is_true(gs):
                    live.append((True, val))
                elif feasible(st.pc, gs):
                    live.append((gs, val))
        for i, (g, val) in enumerate(live):
            s = st if i == len(live) - 1 else st.fork()
            if g is not True:
                s.assume(g)
            out += self.split(s, val)
        return out

    # ------------------------------------------------------------------ function execution
    def exec_function(self, finfo, st, argvals, contract=None):
        """Run the body; returns list of (state, Return|RaiseExc)."""
        saved = (self.cur, self.cur_contract, self.loop_ord)
        self.cur, self.cur_contract, self.loop_ord = finfo, contract, 0
        self.loop_ids = {}
        for n in _loops_in_order(finfo.node):
            self.loop_ids[id(n)] = len(self.loop_ids)
        st.env = dict(argvals)
        try:
            outs = self.exec_block(finfo.body, st)
        finally:
            self.cur, self.cur_contract, self.loop_ord = saved
        res = []
        for s, c in outs:
            self.stats["paths"] += 1
            if c is None:
                res.append((s, Return(None)))
            elif isinstance(c, (Return, RaiseExc)):
                res.append((s, c))
            else:
                raise EngineUnsupported("break/continue outside loop")
        return res

    # ------------------------------------------------------------------ statements
    def exec_block(self, stmts, st):
        outs = [(st, None)]
        for stmt in stmts:
            nxt = []
            for s, c in outs:
                if c is not None:
                    nxt.append((s, c))
                else:
                    nxt += self.exec_stmt(stmt, s)
            outs = nxt
        return outs

    def exec_stmt(self, node, st):
        self.check_budget()
        m = getattr(self, "st_" + type(node).__name__, None)
        if m is None:
            raise EngineUnsupported(f"statement {type(node).__name__} at line {node.lineno}")
        return m(node, st)

    def st_Pass(self, node, st):
        return [(st, None)]

    def st_Expr(self, node, st):
        return [(s, v if isinstance(v, RaiseExc) else None) for s, v in self.ev(node.value, st)]

    def st_Return(self, node, st):
        if node.value is None:
            return [(st, Return(None))]
        return [(s, v if isinstance(v, RaiseExc) else Return(v)) for s, v in self.ev(node.value, st)]

    def st_Break(self, node, st):
        return [(st, Break())]

    def st_Continue(self, node, st):
        return [(st, Continue())]

    def st_Assign(self, node, st):
        outs = []
        for s, v in self.ev(node.value, st):
            if isinstance(v, RaiseExc):
                outs.append((s, v))
                continue
            cur = [(s, None)]
            for tgt in node.targets:
                nxt = []
                for s2, c in cur:
                    if c is not None:
                        nxt.append((s2, c))
                    else:
                        nxt += self.assign(tgt, v, s2)
                cur = nxt
            outs += cur
        return outs

    def st_AugAssign(self, node, st):
        load = _as_load(node.target)
        outs = []
        for s, vals in self.evs([load, node.value], st):
            if isinstance(vals, RaiseExc):
                outs.append((s, vals))
                continue
            for s2, r in self.do_binop(s, type(node.op), vals[0], vals[1]):
                if isinstance(r, RaiseExc):
                    outs.append((s2, r))
                else:
                    outs += self.assign(node.target, r, s2)
        return outs

    def assign(self, tgt, v, st):
        if isinstance(tgt, ast.Name):
            st.env[tgt.id] = v
            return [(st, None)]
        if isinstance(tgt, (ast.Tuple, ast.List)):
            if isinstance(v, Ref) and isinstance(st.obj(v), HList):
                items = st.obj(v).items
            elif isinstance(v, (tuple, list)):
                items = v
            else:
                raise EngineUnsupported(f"unpack of {v!r}")
            if len(items) != len(tgt.elts):
                return [(st, RaiseExc(ValueError, "unpack arity"))]
            cur = [(st, None)]
            for t, x in zip(tgt.elts, items):
                nxt = []
                for s, c in cur:
                    nxt += [(s, c)] if c is not None else self.assign(t, x, s)
                cur = nxt
            return cur
        if isinstance(tgt, ast.Attribute):
            outs = []
            for s, o in self.ev(tgt.value, st):
                if isinstance(o, RaiseExc):
                    outs.append((s, o))
                else:
                    outs += [(s2, r if isinstance(r, RaiseExc) else None) for s2, r in self.set_attr(s, o, tgt.attr, v)]
            return outs
        if isinstance(tgt, ast.Subscript):
            outs = []
            for s, vals in self.evs([tgt.value, tgt.slice], st):
                if isinstance(vals, RaiseExc):
                    outs.append((s, vals))
                else:
                    outs += [(s2, r if isinstance(r, RaiseExc) else None) for s2, r in self.set_item(s, vals[0], vals[1], v)]
            return outs
        raise EngineUnsupported(f"assignment target {type(tgt).__name__}")

    def st_If(self, node, st):
        outs = []
        for s, c in self.ev(node.test, st):
            if isinstance(c, RaiseExc):
                outs.append((s, c))
                continue
            t = truth(s, c)
            if isinstance(t, bool):
                outs += self.exec_block(node.body if t else node.orelse, s)
                continue
            base = s
            tz = z3.simplify(t)
            if z3.is_true(tz) or z3.is_false(tz):
                outs += self.exec_block(node.body if z3.is_true(tz) else node.orelse, s)
                continue
            # optimistic: run both branches without a feasibility query; an infeasible branch that
            # merges is harmless (its facts are guarded), otherwise feasibility is checked afterwards
            if _simple_block(node.body) and _simple_block(node.orelse):
                st_t, st_f = s.fork(), s.fork()
                st_t.assume(tz)
                st_f.assume(z3.Not(tz))
                self.stats["forks"] += 1
                try:
                    o_t = self.exec_block(node.body, st_t)
                    o_f = self.exec_block(node.orelse, st_f)
                    if len(o_t) == 1 and len(o_f) == 1 and o_t[0][1] is None and o_f[0][1] is None:
                        merged = merge_states(tz, base, o_t[0][0], o_f[0][0], strict=True)
                        self.stats["merges"] += 1
                        outs.append((merged, None))
                        continue
                except NoMerge as e:
                    self.stats.setdefault("nomerge", []).append(str(e)[:80])
                except EngineUnsupported:
                    pass  # may stem from an infeasible branch: redo with feasibility checks
            brs = self.branch(s.fork(), t)
            if len(brs) == 2 and _simple_block(node.body) and _simple_block(node.orelse):
                # both branches feasible and a strict merge failed: merge with poisoned temporaries rather
                # than doubling the number of paths
                (st_t, _), (st_f, _) = brs
                o_t = self.exec_block(node.body, st_t)
                o_f = self.exec_block(node.orelse, st_f)
                if len(o_t) == 1 and len(o_f) == 1 and o_t[0][1] is None and o_f[0][1] is None:
                    try:
                        merged = merge_states(tz, base, o_t[0][0], o_f[0][0])
                        self.stats["merges"] += 1
                        outs.append((merged, None))
                        continue
                    except NoMerge as e:
                        self.stats.setdefault("nomerge", []).append(str(e)[:80])
                outs += o_t + o_f
                continue
            for s2, b in brs:
                outs += self.exec_block(node.body if b else node.orelse, s2)
        return outs

    def st_Raise(self, node, st):
        if node.exc is None:
            raise EngineUnsupported("bare raise")
        outs = []
        es = [node.exc] + ([node.cause] if node.cause is not None else [])
        for s, vals in self.evs(es, st):
            if isinstance(vals, RaiseExc):
                outs.append((s, vals))
                continue
            e = vals[0]
            if isinstance(e, type) and issubclass(e, BaseException):
                e = ExcValue(e)
            if not isinstance(e, ExcValue):
                raise EngineUnsupported(f"raise of {e!r}")
            outs.append((s, RaiseExc(e.cls, e.msg, cause=vals[1] if len(vals) > 1 else None, tag=e.tag)))
        return outs

    def st_Try(self, node, st):
        outs = []
        for s, c in self.exec_block(node.body, st):
            if isinstance(c, RaiseExc):
                outs += self.dispatch_handlers(node.handlers, s, c)
            elif c is None and node.orelse:
                outs += self.exec_block(node.orelse, s)  # runs when the body fell off its end; its own exceptions are NOT handled here
            else:
                outs.append((s, c))
        if node.finalbody:  # runs on every outcome; a return / raise / break of its own replaces the pending one
            final = []
            for s, c in outs:
                for s2, c2 in self.exec_block(node.finalbody, s):
                    final.append((s2, c2 if c2 is not None else c))
            outs = final
        return outs

    def dispatch_handlers(self, handlers, st, exc):
        if not handlers:
            return [(st, exc)]
        h = handlers[0]
        if h.type is None:
            classes = (BaseException,)
        else:
            r = self.ev(h.type, st)
            if len(r) != 1 or isinstance(r[0][1], RaiseExc):
                raise EngineUnsupported("handler type expression")
            classes = r[0][1]
            if not isinstance(classes, tuple):
                classes = (classes,)
        m = match_exc(exc.cls, classes)
        outs = []
        if m in ("yes", "maybe"):
            s = st.fork() if m == "maybe" else st
            if h.name:
                s.env[h.name] = ExcValue(exc.cls, exc.msg, tag=exc.tag)
            outs += self.exec_block(h.body, s)
        if m in ("no", "maybe"):
            outs += self.dispatch_handlers(handlers[1:], st, exc)
        return outs

    # ---- loops
    def next_loop(self):
        k = self.loop_ord
        self.loop_ord += 1
        return k

    def loop_spec(self, k):
        if self.cur_contract is not None:
            return self.cur_contract.loops.get(k)
        return None

    def st_For(self, node, st):
        k = self.loop_ids[id(node)]
        nloops_inside = _count_loops(node.body)
        outs = []
        for s, it in self.ev(node.iter, st):
            if isinstance(it, RaiseExc):
                outs.append((s, it))
                continue
            if isinstance(it, Ref) and type(s.obj(it)).__name__ == "HGen" and any(isinstance(n, (ast.Break, ast.Return)) for n in ast.walk(node)):
                raise EngineUnsupported("loop over a generator object that may stop early (the rest of the generator stays available)")
            seq = self.concrete_iter(s, it)
            if seq is not None:
                outs += self.unroll_concrete(node, s, seq, k)
            else:
                outs += self.cut_for(node, s, it, k)
            self.loop_ord = k + 1 + nloops_inside
        if node.orelse:
            raise EngineUnsupported("for/else")
        return outs

    def concrete_iter(self, st, it):
        it = norm(it)
        if isinstance(it, (list, tuple, dict, range, str, bytes)):
            return list(it)
        if isinstance(it, Ref) and isinstance(st.obj(it), HList):
            return list(st.obj(it).items)
        if isinstance(it, Ref) and type(st.obj(it)).__name__ == "HGen":
            g = st.obj(it)
            items, g.items = list(g.items), []  # exhausted from now on (a loop that breaks early is not modelled: see st_For)
            return items
        if isinstance(it, SRange):
            lo, hi = determined_int(st.pc, int_term(it.lo)), determined_int(st.pc, int_term(it.hi))
            if lo is not None and hi is not None:
                return list(range(lo, hi))
        return None

    def unroll_concrete(self, node, st, seq, k):
        live = [st]
        done = []
        spec = self.loop_spec(k)
        cp = spec is not None and spec.checkpoint and spec.invariant is not None

        def checkpoint(s, j, phase):
            for nm, g in self.inv_asserted(spec, s, z3.IntVal(j)):
                self.oblige(f"{self.cur.qualname}.loop{k}.inv_{phase}.{nm}", s, g, kind="inv", site=node.lineno)
            self.havoc_locals(node, s, spec, z3.IntVal(j))

        if cp:
            checkpoint(st, 0, "init")
        for j, x in enumerate(seq):
            nxt = []
            for s in live:
                self.loop_ord = k + 1
                if cp and spec.facts:
                    for f in spec.facts(self, s, z3.IntVal(j)):
                        s.assume(f)
                for s2, c in self.assign(node.target, x, s):
                    if c is not None:
                        done.append((s2, c))
                        continue
                    for s3, c3 in self.exec_block(node.body, s2):
                        if c3 is None or isinstance(c3, Continue):
                            if cp:
                                checkpoint(s3, j + 1, "step")
                            nxt.append(s3)
                        elif isinstance(c3, Break):
                            done.append((s3, None))
                        else:
                            done.append((s3, c3))
            live = nxt
        return done + [(s, None) for s in live]

    def havoc_locals(self, node, st, spec, idx=None):
        for name in sorted(_assigned_names(node)):
            kind = spec.kinds.get(name) if spec else None
            if kind is None:
                old = st.env.get(name, UNDEF)
                if isinstance(old, bool) or isinstance(old, SBool):
                    kind = "bool"
                elif isinstance(old, (int, SInt, SBits)):
                    kind = "int"
            if kind == "int":
                st.env[name] = SInt(z3.Int(fresh_name(name)))
            elif kind == "bool":
                st.env[name] = SBool(z3.Bool(fresh_name(name)))
            elif callable(kind):
                st.env[name] = kind(self, st, idx)
            else:
                st.env[name] = UNDEF

    def cut_for(self, node, st, it, k):
        spec = self.loop_spec(k)
        if isinstance(it, SRange):
            lo, hi = int_term(it.lo), int_term(it.hi)
            elem = lambda s, i: SInt(i)
        elif isinstance(it, (SBytes,)):
            if len(it.segs) != 1 or not isinstance(it.segs[0], View):
                raise EngineUnsupported("iteration over a composite bytes value")
            v = it.segs[0]
            lo, hi = z3.IntVal(0), v.length()
            elem = lambda s, i: SInt(byte_at(s, v.arr, v.lo + i))
        else:
            raise EngineUnsupported(f"iteration over {it!r}")
        if spec is None or spec.invariant is None:
            return self.unroll_for(node, st, it, k, lo, hi, elem)
        outs = []
        # init: invariant holds for index lo
        self.shape_failed = False
        for nm, g in self.inv_asserted(spec, st, lo):
            self.oblige(f"{self.cur.qualname}.loop{k}.inv_init.{nm}", st, g, kind="inv", site=node.lineno)
        if self.shape_failed:
            return []
        # arbitrary iteration
        head = st.fork()
        head.writes = set()
        snap = self.heap_snapshot(head)
        i = z3.Int(fresh_name("k"))
        self.havoc_locals(node, head, spec, i)
        if spec.havoc:
            import inspect
            if len(inspect.signature(spec.havoc).parameters) >= 3:
                spec.havoc(self, head, i)  # heap havoc that depends on the loop index
            else:
                spec.havoc(self, head)
        allowed = self.havocked_locations(snap, head)
        known_objs = set(head.heap)
        head.assume(i >= lo)
        for nm, g in spec.invariant(self, head, i):
            head.assume(g)
        exit_st = head.fork()
        # body
        head.assume(i < hi)
        if feasible(head.pc):
            if spec.facts:
                for f in spec.facts(self, head, i):
                    head.assume(f)
            self.loop_ord = k + 1
            for s2, c in self.assign(node.target, elem(head, i), head):
                if c is not None:
                    outs.append((s2, c))
                    continue
                for s3, c3 in self.exec_block(node.body, s2):
                    self.check_loop_frame(k, s3, allowed, known_objs)
                    if c3 is None or isinstance(c3, Continue):
                        for nm, g in self.inv_asserted(spec, s3, i + 1):
                            self.oblige(f"{self.cur.qualname}.loop{k}.inv_step.{nm}", s3, g, kind="inv", site=node.lineno)
                    elif isinstance(c3, Break):
                        outs.append((s3, None))
                    else:
                        outs.append((s3, c3))
        # exit: index == max(lo, hi)
        exit_st.assume(z3.If(hi >= lo, i == hi, i == lo))
        if feasible(exit_st.pc):
            if spec.facts:
                pass
            outs.append((exit_st, None))
        return outs

    def st_While(self, node, st):
        k = self.loop_ids[id(node)]
        nloops_inside = _count_loops(node.body)
        spec = self.loop_spec(k)
        if node.orelse:
            raise EngineUnsupported("while/else")
        outs = []
        # entry test
        for s, c in self.ev(node.test, st):
            if isinstance(c, RaiseExc):
                outs.append((s, c))
                continue
            for s1, b in self.branch(s, truth(s, c)):
                if not b:
                    outs.append((s1, None))
                    continue
                if spec is None:
                    outs += self.unroll_while(node, s1, k)
                    continue
                self.shape_failed = False
                for nm, g in self.inv_asserted(spec, s1, None):
                    self.oblige(f"{self.cur.qualname}.loop{k}.inv_init.{nm}", s1, g, kind="inv", site=node.lineno)
                if self.shape_failed:
                    continue
                head = s1.fork()
                head.writes = set()
                snap = self.heap_snapshot(head)
                self.havoc_locals(node, head, spec)
                if spec.havoc:
                    spec.havoc(self, head)
                allowed = self.havocked_locations(snap, head)
                known_objs = set(head.heap)
                for nm, g in spec.invariant(self, head, None):
                    head.assume(g)
                if spec.facts:
                    for f in spec.facts(self, head, None):
                        head.assume(f)
                for s2, c2 in self.ev(node.test, head):
                    if isinstance(c2, RaiseExc):
                        outs.append((s2, c2))
                        continue
                    for s3, b3 in self.branch(s2, truth(s2, c2)):
                        if not b3:
                            outs.append((s3, None))
                            continue
                        self.loop_ord = k + 1
                        v0 = None
                        if spec.variant is not None:
                            v0 = spec.variant(self, s3)
                            self.oblige(f"{self.cur.qualname}.loop{k}.variant_bounded_below", s3, v0 >= 0, kind="variant", site=node.lineno)
                        for s4, c4 in self.exec_block(node.body, s3):
                            self.check_loop_frame(k, s4, allowed, known_objs)
                            if c4 is None or isinstance(c4, Continue):
                                outs += self.back_edge(node, spec, k, s4, v0)
                            elif isinstance(c4, Break):
                                outs.append((s4, None))
                            else:
                                outs.append((s4, c4))
        self.loop_ord = k + 1 + nloops_inside
        return outs

    def unroll_while(self, node, st, k):
        """No invariant for this loop (e.g. the code was edited): explore up to UNROLL
        iterations.  Refutations found this way are real paths; a proof is not claimed."""
        outs = []
        live = [st]  # states whose test was true
        limit = 10 ** 6 if self.inline else UNROLL  # cross-check mode runs concrete loops to completion
        for it in range(limit + 1):
            if not live:
                break
            if it == limit:
                self.incomplete.append(f"{self.cur.qualname} while-loop #{k}: paths needing more than {UNROLL} iterations were not explored (no invariant)")
                break
            nxt = []
            for s in live:
                self.loop_ord = k + 1
                for s4, c4 in self.exec_block(node.body, s):
                    if c4 is None or isinstance(c4, Continue):
                        for s5, c5 in self.ev(node.test, s4):
                            if isinstance(c5, RaiseExc):
                                outs.append((s5, c5))
                                continue
                            for s6, b in self.branch(s5, truth(s5, c5)):
                                if b:
                                    nxt.append(s6)
                                else:
                                    outs.append((s6, None))
                    elif isinstance(c4, Break):
                        outs.append((s4, None))
                    else:
                        outs.append((s4, c4))
            live = nxt
        return outs

    def unroll_for(self, node, st, it, k, lo, hi, elem):
        outs = []
        live = [st]
        limit = 10 ** 6 if self.inline else UNROLL
        for j in range(limit + 1):
            if not live:
                break
            nxt = []
            for s in live:
                idx = z3.simplify(lo + j)
                for s1, b in self.branch(s, idx < hi):
                    if not b:
                        outs.append((s1, None))
                        continue
                    if j == limit:
                        self.incomplete.append(f"{self.cur.qualname} for-loop #{k}: paths needing more than {UNROLL} iterations were not explored (no invariant)")
                        continue
                    self.loop_ord = k + 1
                    for s2, c in self.assign(node.target, elem(s1, idx), s1):
                        if c is not None:
                            outs.append((s2, c))
                            continue
                        for s3, c3 in self.exec_block(node.body, s2):
                            if c3 is None or isinstance(c3, Continue):
                                nxt.append(s3)
                            elif isinstance(c3, Break):
                                outs.append((s3, None))
                            else:
                                outs.append((s3, c3))
            live = nxt
        return outs

    @staticmethod
    def heap_snapshot(st):
        snap = {}
        for oid, o in st.heap.items():
            if isinstance(o, HObject):
                snap[oid] = ("obj", {k: id(v) if isinstance(v, (Sym, list, dict)) or hasattr(v, "sexpr") else repr(v) for k, v in o.fields.items()},
                             getattr(o, "abs", None))
            else:
                snap[oid] = ("other", Engine._sig(o))
        return snap

    @staticmethod
    def _sig(o):
        """identity + shallow content signature of a container (so that an in-place havoc is seen)."""
        if isinstance(o, HList):
            return (id(o), tuple(id(x) for x in o.items))
        if isinstance(o, HDict):
            return (id(o), tuple((k, id(v)) for k, v in o.d.items()))
        return (id(o),)

    @staticmethod
    def havocked_locations(before, st):
        """(oid, key) pairs (key None = whole object) that the loop's havoc step replaced."""
        out = set()
        for oid, o in st.heap.items():
            b = before.get(oid)
            if b is None:
                out.add((oid, None))
            elif b[0] == "other":
                if b[1] != Engine._sig(o):
                    out.add((oid, None))
            else:
                for k, v in o.fields.items():
                    cur = id(v) if isinstance(v, (Sym, list, dict)) or hasattr(v, "sexpr") else repr(v)
                    if b[1].get(k, "<absent>") != cur:
                        out.add((oid, k))
                if getattr(o, "abs", None) is not b[2]:
                    out.add((oid, "abs"))
        return out

    def check_loop_frame(self, k, st, allowed, fresh_before):
        """Every heap write of the loop body must be to a location the loop head havocked (or to an object allocated
        inside the iteration); otherwise the cut would silently keep the pre-loop value: refuse (unsupported)."""
        for (oid, key) in st.writes:
            if oid not in fresh_before:
                continue  # allocated inside this iteration
            if (oid, None) in allowed or (oid, key) in allowed:
                continue
            raise EngineUnsupported(f"loop #{k} of {self.cur.qualname} writes heap location ({oid}, {key}) that its invariant does not cover")

    def inv_asserted(self, spec, st, idx):
        """The invariant's clauses at a point where it must be shown.  The sidecar reads the program state it talks about (a list
        in a dict, an attribute); if that state does not exist at this point the invariant does not hold here - a failed
        obligation like any other, not a checker error."""
        try:
            return list(spec.invariant(self, st, idx))
        except (KeyError, AttributeError, IndexError, TypeError) as e:
            if isinstance(e, KeyError) and e.args and isinstance(e.args[0], str) and e.args[0] not in st.env:
                pin = extract.pinned_locals().get(self.cur.qualname, {}).get("locals", [])
                if e.args[0] in pin or e.args[0] in self.cur.params or e.args[0].startswith("_"):
                    raise  # the sidecar names a local / private attribute the code no longer has: the contract needs updating
                    # (a checker error, exit 3 - never a verdict about the property)
            self.abandoned = getattr(self, "abandoned", 0) + 1
            self.shape_failed = True  # the caller abandons this path: the havocked head state cannot be built either
            return [("state_the_invariant_describes_exists", z3.BoolVal(False))]

    def back_edge(self, node, spec, k, st, v0=None):
        outs = []
        for s, c in self.ev(node.test, st):
            if isinstance(c, RaiseExc):
                outs.append((s, c))
                continue
            t = truth(s, c)
            if t is False:
                outs.append((s, None))  # loop exits with this very state
                continue
            if v0 is not None:
                tt = z3.BoolVal(True) if t is True else bool_term(t)
                self.oblige(f"{self.cur.qualname}.loop{k}.variant_decreases", s, z3.Implies(tt, spec.variant(self, s) < v0), kind="variant",
                            site=node.lineno, observe={"variant_before": v0, "variant_after": spec.variant(self, s)})
            for nm, g in self.inv_asserted(spec, s, None):
                self.oblige(f"{self.cur.qualname}.loop{k}.inv_step.{nm}", s, g, kind="inv", site=node.lineno)
        return outs

    # ------------------------------------------------------------------ expressions
    def evs(self, exprs, st):
        outs = [(st, [])]
        for e in exprs:
            nxt = []
            for s, vals in outs:
                if isinstance(vals, RaiseExc):
                    nxt.append((s, vals))
                    continue
                for s2, v in self.ev(e, s):
                    nxt.append((s2, v if isinstance(v, RaiseExc) else vals + [v]))
            outs = nxt
        return outs

    def ev(self, node, st):
        m = getattr(self, "ex_" + type(node).__name__, None)
        if m is None:
            raise EngineUnsupported(f"expression {type(node).__name__} at line {node.lineno}")
        return m(node, st)

    def ex_Constant(self, node, st):
        return [(st, node.value)]

    def ex_Name(self, node, st):
        if node.id in st.env:
            v = st.env[node.id]
            return [(st, v)]
        return [(st, self.global_name(node.id))]

    def global_name(self, name):
        mod = extract.module(self.cur.modname)
        if hasattr(mod, name):
            return self.wrap_global(getattr(mod, name))
        if hasattr(pybuiltins, name):
            return getattr(pybuiltins, name)
        raise EngineUnsupported(f"unknown name {name}")

    def wrap_global(self, obj):
        import types
        if isinstance(obj, types.FunctionType) and obj.__module__.startswith("pyrtcm"):
            return FuncRef(f"{obj.__module__}.{obj.__qualname__}")
        if isinstance(obj, type) and obj.__module__.startswith("pyrtcm") and not issubclass(obj, BaseException):
            return ClassRef(f"{obj.__module__}.{obj.__qualname__}", obj)
        return obj

    def ex_Tuple(self, node, st):
        return [(s, v if isinstance(v, RaiseExc) else tuple(v)) for s, v in self.evs(node.elts, st)]

    def ex_List(self, node, st):
        outs = []
        for s, v in self.evs(node.elts, st):
            outs.append((s, v if isinstance(v, RaiseExc) else s.alloc(HList(v))))
        return outs

    def ex_Dict(self, node, st):
        if node.keys:
            raise EngineUnsupported("non-empty dict display")
        return [(st, st.alloc(HDict()))]

    def ex_IfExp(self, node, st):
        outs = []
        for s, c in self.ev(node.test, st):
            if isinstance(c, RaiseExc):
                outs.append((s, c))
                continue
            for s2, b in self.branch(s, truth(s, c)):
                outs += self.ev(node.body if b else node.orelse, s2)
        return outs

    def ex_BoolOp(self, node, st):
        is_and = isinstance(node.op, ast.And)
        outs = []
        live = [(st, None)]
        for idx, e in enumerate(node.values):
            last = idx == len(node.values) - 1
            nxt = []
            for s, _ in live:
                for s2, v in self.ev(e, s):
                    if isinstance(v, RaiseExc) or last:
                        outs.append((s2, v))
                        continue
                    for s3, b in self.branch(s2, truth(s2, v)):
                        if b == is_and:
                            nxt.append((s3, None))
                        else:
                            outs.append((s3, v))
            live = nxt
        return outs

    def ex_UnaryOp(self, node, st):
        return [(s, v if isinstance(v, RaiseExc) else unop(s, type(node.op), v)) for s, v in self.ev(node.operand, st)]

    def do_binop(self, st, op, a, b):
        r = ops.binop_post(st, op, a, b)
        if r is None:
            if isinstance(a, SOpaque) and a.kind == "real" or isinstance(b, SOpaque) and b.kind == "real":
                r = ops.real_binop(op, a, b)
            else:
                r = ops.binop(st, op, a, b)
        return self.split(st, r)

    def ex_BinOp(self, node, st):
        outs = []
        for s, vals in self.evs([node.left, node.right], st):
            if isinstance(vals, RaiseExc):
                outs.append((s, vals))
            else:
                outs += self.do_binop(s, type(node.op), vals[0], vals[1])
        return outs

    def ex_Compare(self, node, st):
        outs = []
        for s, vals in self.evs([node.left] + list(node.comparators), st):
            if isinstance(vals, RaiseExc):
                outs.append((s, vals))
                continue
            res = True
            try:
                for op, a, b in zip(node.ops, vals, vals[1:]):
                    r = compare(s, type(op), a, b)
                    res = r if res is True else norm(SBool(bool_term(zand(bool_term_v(res), bool_term_v(r)))))
                    if res is False:
                        break
            except ops.PyRaises as e:
                outs.append((s, RaiseExc(e.cls, e.msg)))
                continue
            outs.append((s, res))
        return outs

    def ex_JoinedStr(self, node, st):
        outs = [(st, [])]
        for part in node.values:
            nxt = []
            for s, segs in outs:
                if isinstance(segs, RaiseExc):
                    nxt.append((s, segs))
                    continue
                if isinstance(part, ast.Constant):
                    nxt.append((s, segs + [part.value]))
                    continue
                spec = ""
                if part.format_spec is not None:
                    if not all(isinstance(x, ast.Constant) for x in part.format_spec.values):
                        raise EngineUnsupported("computed format spec")
                    spec = "".join(x.value for x in part.format_spec.values)
                for s2, v in self.ev(part.value, s):
                    if isinstance(v, RaiseExc):
                        nxt.append((s2, v))
                    elif type(v).__name__ == "ExternalValue":
                        # formatting a caller-supplied object runs its own code: it may return any text or raise
                        s3 = s2.fork()
                        nxt.append((s2, segs + ["<?>"]))
                        nxt.append((s3, RaiseExc(ValueError, "formatting a caller-supplied value raised")))
                    else:
                        nxt.append((s2, segs + self.format_value(s2, v, spec, part.conversion)))
            outs = nxt
        return [(s, v if isinstance(v, RaiseExc) else norm(SStr(v))) for s, v in outs]

    def format_value(self, st, v, spec, conv):
        v = norm(v)
        if not isinstance(v, (Sym, Ref, ExcValue)) and conv == -1:
            try:
                return [format(v, spec)]
            except Exception:
                return ["<?>"]
        if isinstance(v, (SInt, SBits)) and conv == -1:
            c = determined_int(st.pc, int_term(v))
            if c is not None:
                return [format(c, spec)]
            if spec in ("", "d"):
                spec = "d"
            import re as _re
            if not _re.fullmatch(r"0?\d*d", spec):
                raise EngineUnsupported(f"format spec {spec!r} on a symbolic int")
            return [Fmt(spec, v)]
        if isinstance(v, SStr) and conv == -1 and spec == "":
            return list(v.segs)
        if isinstance(v, (SBytes, bytes)) and spec == "":
            return [ReprSeg(v)]
        return ["<?>"]

    def ex_Attribute(self, node, st):
        outs = []
        for s, o in self.ev(node.value, st):
            if isinstance(o, RaiseExc):
                outs.append((s, o))
            else:
                outs += self.get_attr(s, o, node.attr)
        return outs

    def ex_Subscript(self, node, st):
        outs = []
        if isinstance(node.slice, ast.Slice):
            parts = [node.slice.lower, node.slice.upper]
            if node.slice.step is not None:
                raise EngineUnsupported("slice step")
            es = [node.value] + [p if p is not None else ast.Constant(value=None) for p in parts]
            for s, vals in self.evs(es, st):
                if isinstance(vals, RaiseExc):
                    outs.append((s, vals))
                else:
                    outs += self.split(s, self.get_slice(s, vals[0], vals[1], vals[2]))
            return outs
        for s, vals in self.evs([node.value, node.slice], st):
            if isinstance(vals, RaiseExc):
                outs.append((s, vals))
            else:
                outs += self.split(s, self.get_item(s, vals[0], vals[1]))
        return outs

    def ex_GeneratorExp(self, node, st):
        outs = self._comp(node, st)
        if id(node) in getattr(self, "direct_gens", ()):
            return outs  # sole consumer is the call it is an argument of: computed on the spot
        # bound to a name / stored / returned: a generator object, which can be iterated ONCE (a second loop over it sees nothing)
        from pyvc.values import HGen
        if any(isinstance(v, RaiseExc) for _, v in outs):
            raise EngineUnsupported("generator expression whose elements may raise, not consumed where it is written")
        return [(s, s.alloc(HGen(v))) for s, v in outs]

    def ex_ListComp(self, node, st):
        return [(s, v if isinstance(v, RaiseExc) else s.alloc(HList(v))) for s, v in self._comp(node, st)]

    def _comp(self, node, st):
        if len(node.generators) != 1 or node.generators[0].ifs:
            raise EngineUnsupported("comprehension shape")
        g = node.generators[0]
        outs = []
        for s, it in self.ev(g.iter, st):
            if isinstance(it, RaiseExc):
                outs.append((s, it))
                continue
            seq = self.concrete_iter(s, it)
            if seq is None:
                raise EngineUnsupported("comprehension over a symbolic iterable")
            live = [(s, [])]
            for x in seq:
                nxt = []
                for s2, acc in live:
                    if isinstance(acc, RaiseExc):
                        nxt.append((s2, acc))
                        continue
                    for s3, c in self.assign(g.target, x, s2):
                        for s4, v in self.ev(node.elt, s3):
                            nxt.append((s4, v if isinstance(v, RaiseExc) else acc + [v]))
                live = nxt
            outs += live
        return outs

    def ex_Call(self, node, st):
        outs = []
        if any(isinstance(a, ast.Starred) for a in node.args) or any(k.arg is None for k in node.keywords):
            raise EngineUnsupported("star-args")
        es = [node.func] + list(node.args) + [k.value for k in node.keywords]
        if not hasattr(self, "direct_gens"):
            self.direct_gens = set()
        # a generator expression written as the argument of a builtin that consumes its argument on the spot (sum, any, "".join, ...)
        # is computed there; handed to anything else it is a generator object like any other
        fn = node.func
        consumer = (isinstance(fn, ast.Name) and fn.id in ("sum", "any", "all", "list", "tuple", "sorted", "max", "min", "set", "dict",
                                                          "frozenset", "bytes", "bytearray", "len")) \
            or (isinstance(fn, ast.Attribute) and fn.attr in ("join", "extend", "update"))
        if consumer:
            self.direct_gens.update(id(a) for a in node.args if isinstance(a, ast.GeneratorExp))
        for s, vals in self.evs(es, st):
            if isinstance(vals, RaiseExc):
                outs.append((s, vals))
                continue
            f = vals[0]
            args = vals[1:1 + len(node.args)]
            kwargs = {k.arg: v for k, v in zip(node.keywords, vals[1 + len(node.args):])}
            outs += self.call(s, f, args, kwargs, node)
        return outs

    # ------------------------------------------------------------------ calls
    def call(self, st, f, args, kwargs, node=None):
        from pyvc import pybuiltin
        site = getattr(node, "lineno", None)
        if isinstance(f, BoundMethod):
            return self.call_qual(f.qualname, st, f.selfv, args, kwargs, site)
        if isinstance(f, FuncRef):
            return self.call_qual(f.qualname, st, None, args, kwargs, site)
        if isinstance(f, ClassRef):
            return self.call_qual(f.qualname + ".__init__", st, None, args, kwargs, site)
        if isinstance(f, type) and issubclass(f, BaseException):
            return [(st, ExcValue(f, args[0] if args else None))]
        if isinstance(f, PyBoundBuiltin):
            return self.split(st, pybuiltin.method(self, st, f.recv, f.name, args, kwargs))
        if isinstance(f, LoggerVal):
            return [(st, None)]
        if isinstance(f, ExternalCallable):
            return self.call_qual(f.qualname, st, f, args, kwargs, site)
        return self.split(st, pybuiltin.call(self, st, f, args, kwargs))

    def inline_call(self, qualname, st, selfv, args, kwargs):
        """Execute the callee's real body (cross-check mode only)."""
        fi = extract.func(qualname)
        saved = (self.cur, self.cur_contract, self.loop_ord, getattr(self, "loop_ids", {}))
        self.inline_depth = getattr(self, "inline_depth", 0) + 1
        if self.inline_depth > (400 if self.inline else 12):
            self.inline_depth -= 1
            raise EngineUnsupported(f"recursion through {fi.qualname} without a contract to cut it (depth > 12)")
        params = list(fi.params)
        env = {}
        if fi.clsname and not fi.is_static:
            env[params[0]] = selfv
            params = params[1:]
        for p, a in zip(params, args):
            env[p] = a
        for k, v in kwargs.items():
            env[k] = v
        caller_env = st.env
        for p in params:
            if p not in env:
                if p not in fi.defaults:
                    return [(st, RaiseExc(TypeError, f"missing argument {p}"))]
                self.cur = fi
                r = self.ev(fi.defaults[p], st)
                env[p] = r[0][1]
        outs = []
        try:
            for s, c in self.exec_function(fi, st, env, contract=None):
                s.env = dict(caller_env)
                outs.append((s, c.v if isinstance(c, Return) else c))
        finally:
            self.cur, self.cur_contract, self.loop_ord, self.loop_ids = saved
            self.inline_depth -= 1
        return outs

    def call_qual(self, qualname, st, selfv, args, kwargs, site):
        if self.inline:
            if qualname.endswith(".__init__") and selfv is None:
                cq = qualname[:-len(".__init__")]
                o = HObject(cq)
                mod, _, cls = cq.rpartition(".")
                o.pycls = getattr(extract.module(mod), cls)
                o.dynamic = True
                o.symbolic_pre = False
                o.pre = {}
                ref = st.alloc(o)
                return [(s, r if isinstance(r, RaiseExc) else ref) for s, r in self.inline_call(qualname, st, ref, args, kwargs)]
            if qualname in extract.functions():
                return self.inline_call(qualname, st, selfv, args, kwargs)
        c = self.contracts.get(qualname)
        if c is None:
            raise EngineUnsupported(f"call to {qualname}: no contract")
        args, kwargs = list(args), dict(kwargs)
        if kwargs and qualname in extract.functions():
            # f(a, b=x) and f(a, x) are the same call: keyword arguments that continue the positional prefix are passed on as
            # positional ones (the real parameter names of the tree at hand), so a caller view need not care how a call is spelled
            params = [p for p in extract.func(qualname).params if p != "self"]
            while len(args) < len(params) and params[len(args)] in kwargs:
                args.append(kwargs.pop(params[len(args)]))
        try:
            return c.apply(self, st, selfv, args, kwargs, site)
        except NotImplementedError:
            # the callee is verified on its own but has no caller view (it is not called from the verified code on the
            # unchanged tree): execute its real body in place - sound, merely not modular
            if qualname in extract.functions():
                return self.inline_call(qualname, st, selfv, list(args), dict(kwargs))
            raise EngineUnsupported(f"call to {qualname}: contract has no caller view")

    # ------------------------------------------------------------------ attributes
    def get_attr(self, st, o, name):
        from pyvc import pybuiltin
        if isinstance(o, Ref):
            obj = st.obj(o)
            if isinstance(obj, HObject):
                return self.obj_getattr(st, o, obj, name, default=_NODEFAULT)
            return [(st, PyBoundBuiltin(o, name))]
        if isinstance(o, LoggerVal):
            return [(st, LoggerVal())]
        if isinstance(o, SuperProxy):
            return [(st, PyBoundBuiltin(o, name))]
        if isinstance(o, ClassRef):
            q = f"{o.qualname}.{name}"
            if q in extract.functions():
                return [(st, BoundMethod(q, None))]
            raise EngineUnsupported(f"class attribute {q}")
        if isinstance(o, ExcValue):
            raise EngineUnsupported("attribute of exception value")
        if isinstance(o, (Sym, dict, str, bytes, tuple, list)) or o is int or o is bytes:
            return [(st, PyBoundBuiltin(o, name))]
        if isinstance(o, (int, float)):
            return [(st, PyBoundBuiltin(o, name))]
        import types as _types
        if isinstance(o, _types.ModuleType) and not o.__name__.startswith("pyrtcm"):
            v = getattr(o, name, None)
            if isinstance(v, type) and issubclass(v, BaseException):
                return [(st, v)]  # an exception class of a standard module (socket.timeout, zlib.error ...): itself
        if self.inline and not isinstance(o, (Sym, Ref)):
            return [(st, PyBoundBuiltin(o, name))]  # cross-check mode: a real external object (BytesIO ...)
        raise EngineUnsupported(f"attribute {name} of {o!r}")

    def obj_getattr(self, st, ref, obj, name, default):
        """Attribute read on a heap object; name is a str or SStr."""
        name = norm(name)
        if isinstance(name, str):
            if name in ("_logger", "logger"):
                return [(st, LoggerVal())]
            mod, _, cls = obj.cls.rpartition(".")
            q = f"{obj.cls}.{name}"
            if q in extract.functions():
                fi = extract.func(q)
                if fi.is_property:
                    return self.call_qual(q, st, ref, [], {}, None)
                return [(st, BoundMethod(q, None if fi.is_static else ref))]
            if q in self.contracts:  # external ghost classes
                return [(st, BoundMethod(q, ref))]
            if name in obj.fields:
                return [(st, obj.fields[name])]
        if getattr(obj, "abs", None) is not None:
            from spec import layout
            key, idx = self.parse_attr_name(st, name)
            has, get = layout.attr_funs(key, len(idx))
            missing = RaiseExc(AttributeError, f"no attribute {name!r}") if default is _NODEFAULT else default
            return self.split(st, Cases([(has(obj.abs, *idx), SInt(get(obj.abs, *idx))), (z3.Not(has(obj.abs, *idx)), missing)]))
        key, idx = self.parse_attr_name(st, name)
        ent = self.attr_entry(st, obj, key, len(idx))
        if ent is None:
            present, val = False, None
        elif len(idx) == 0:
            present, val = ent.dom, ent.val
        else:
            present, val = select_n(ent.dom, idx), wrap_kind(ent.kind, select_n(ent.val, idx))
        missing = RaiseExc(AttributeError, f"no attribute {name!r}") if default is _NODEFAULT else default
        return self.split(st, Cases([(bool_or_term(present), val), (bool_or_term(znot(bool_term_b(present))), missing)]))

    def attr_entry(self, st, obj, base, arity, create=True):
        k = (base, arity)
        if k in obj.attrs:
            return obj.attrs[k]
        if not getattr(obj, "symbolic_pre", False) or not create:
            return None
        kind = self.attr_kind(base)
        nm = f"pre_{base}_{arity}"
        if arity == 0:
            ent = AttrEntry(kind, fresh_of_kind(kind, nm), z3.Bool(nm + "_dom"))
        else:
            ent = AttrEntry(kind, z3.Const(nm, array_sort(arity, sort_of_kind(kind))), z3.Const(nm + "_dom", array_sort(arity, z3.BoolSort())))
        obj.attrs[k] = ent
        obj.pre[k] = AttrEntry(ent.kind, ent.val, ent.dom)
        return ent

    def parse_attr_name(self, st, name):
        """-> (base, [index Int terms])."""
        if isinstance(name, str):
            return self.split_concrete_name(name)
        if not isinstance(name, SStr):
            raise EngineUnsupported(f"attribute name {name!r}")
        segs = list(name.segs)
        if not isinstance(segs[0], str):
            raise EngineUnsupported("attribute name starting with a number")
        head = segs[0]
        idx = []
        rest = segs[1:]
        if not head.endswith("_"):
            raise EngineUnsupported(f"attribute name shape {name!r}")
        base, cidx = self.split_concrete_name(head[:-1])
        idx += cidx
        expect_fmt = True
        for sg in rest:
            if expect_fmt:
                if not isinstance(sg, Fmt) or sg.spec != "02d":
                    raise EngineUnsupported(f"attribute name shape {name!r}")
                idx.append(int_term(sg.v))
            else:
                if sg != "_":
                    # "_" followed by concrete digits e.g. "_01_"
                    raise EngineUnsupported(f"attribute name shape {name!r}")
            expect_fmt = not expect_fmt
        if expect_fmt:
            raise EngineUnsupported(f"attribute name shape {name!r}")
        return base, idx

    def split_concrete_name(self, name):
        import re
        if self.bases is None:
            core = extract.module("pyrtcm.rtcmtypes_core")
            self.bases = set(core.RTCM_DATA_FIELDS) | {core.NSAT, core.NSIG, core.NCELL}
        if name in self.bases:
            return name, []
        m = name
        idx = []
        while True:
            mm = re.fullmatch(r"(.*)_(\d{2,})", m)
            if not mm:
                return name, []
            m = mm.group(1)
            idx.insert(0, z3.IntVal(int(mm.group(2))))
            if m in self.bases:
                return m, idx

    def set_attr(self, st, o, name, v, plain=False):
        """Attribute store; honours a class-defined __setattr__ unless plain."""
        if not isinstance(o, Ref) or not isinstance(st.obj(o), HObject):
            raise EngineUnsupported(f"attribute store on {o!r}")
        obj = st.obj(o)
        q = f"{obj.cls}.__setattr__"
        if not plain and q in extract.functions():
            return self.call_qual(q, st, o, [name, v], {}, None)
        # object.__setattr__ honours data descriptors of the class: a property without a setter refuses the store
        nm = norm(name)
        desc = getattr(getattr(obj, "pycls", None), nm, None) if isinstance(nm, str) else None
        if isinstance(desc, property):
            if desc.fset is None:
                return [(st, RaiseExc(AttributeError, f"property '{nm}' has no setter"))]
            raise EngineUnsupported(f"store through property setter {nm}")
        self.raw_store(st, o, name, v)
        return [(st, None)]

    def raw_store(self, st, o, name, v):
        obj = st.obj(o)
        name = norm(name)
        if self.inline and isinstance(name, str):
            obj.fields[name] = v
            st.writes.add((o.oid, name))
            return
        if getattr(obj, "abs", None) is not None and not (isinstance(name, str) and (name in obj.fields or name.startswith("_"))):
            raise EngineUnsupported(f"attribute store {name!r} on an abstract message state")
        if isinstance(name, str) and (name.startswith("_") or not getattr(obj, "dynamic", False)):
            obj.fields[name] = v
            st.writes.add((o.oid, name))
            return
        base, idx = self.parse_attr_name(st, name)
        arity = len(idx)
        ent = self.attr_entry(st, obj, base, arity)
        kind = kind_of_value(v)
        if ent is None:
            k0 = kind
            if arity == 0:
                ent = AttrEntry(k0, None, False)
            else:
                ent = AttrEntry(k0, z3.K(z3.IntSort(), default_of(k0)) if arity == 1 else fresh_array(arity, k0), const_false_array(arity))
            obj.attrs[(base, arity)] = ent
        if arity == 0:
            ent.kind = kind if ent.kind in (None, "any") or ent.val is None else ent.kind
            if ent.kind != kind:
                ent.kind = kind
            ent.val = v
            ent.dom = True
        else:
            if ent.kind != kind:
                raise EngineUnsupported(f"attribute {base} stored with kind {kind}, expected {ent.kind}")
            ent.val = store_n(ent.val, idx, term_of_kind(kind, v))
            ent.dom = store_n(ent.dom, idx, z3.BoolVal(True))
        obj.written.add((base, arity))
        st.writes.add((o.oid, (base, arity)))

    # ------------------------------------------------------------------ items / slices
    def get_item(self, st, o, i):
        from pyvc import pybuiltin
        return pybuiltin.get_item(self, st, o, i)

    def get_slice(self, st, o, lo, hi):
        from pyvc import pybuiltin
        return pybuiltin.get_slice(self, st, o, lo, hi)

    def set_item(self, st, o, i, v):
        from pyvc import pybuiltin
        return self.split(st, pybuiltin.set_item(self, st, o, i, v))


class ExternalCallable:
    """A callable supplied from outside (user error handler ...), modelled by a contract."""

    def __init__(self, qualname):
        self.qualname = qualname


class ReprSeg:
    def __init__(self, v):
        self.v = v

    def __repr__(self):
        return f"Repr({self.v!r})"


class _NoDefault:
    pass


_NODEFAULT = _NoDefault()


def bool_term_v(r):
    if isinstance(r, bool):
        return r
    if isinstance(r, SBool):
        return r.t
    return r


def bool_term_b(r):
    if isinstance(r, bool):
        return r
    if isinstance(r, SBool):
        return r.t
    return r


def bool_or_term(r):
    if isinstance(r, SBool):
        return r.t
    return r


def match_exc(cls, classes):
    if cls is SomeException:
        if any(c in (Exception, BaseException) for c in classes):
            return "yes"
        return "maybe"
    return "yes" if issubclass(cls, tuple(classes)) else "no"


def _as_load(t):
    import copy
    n = copy.copy(t)
    n.ctx = ast.Load()
    return n


def _assigned_names(node):
    names = set()
    for n in ast.walk(node):
        if isinstance(n, ast.Name) and isinstance(n.ctx, ast.Store):
            names.add(n.id)
        elif isinstance(n, ast.ExceptHandler) and n.name:
            names.add(n.name)
    return names


def _simple_block(stmts):
    """No loops, calls that may fork heavily, returns or raises: a candidate for if-merging."""
    for st in stmts:
        for n in ast.walk(st):
            if isinstance(n, (ast.For, ast.While, ast.Return, ast.Raise, ast.Try, ast.Break, ast.Continue)):
                return False
    return True


def _loops_in_order(node):
    out = []

    class V(ast.NodeVisitor):
        def visit_For(self, n):
            out.append(n)
            self.generic_visit(n)

        def visit_While(self, n):
            out.append(n)
            self.generic_visit(n)

    V().visit(node)
    return out


def _count_loops(stmts):
    c = 0
    for s in stmts:
        for n in ast.walk(s):
            if isinstance(n, (ast.For, ast.While)):
                c += 1
    return c


# ---------------------------------------------------------------------------------------
# attribute-store helpers
# ---------------------------------------------------------------------------------------
def default_attr_kind(base):
    core = extract.module("pyrtcm.rtcmtypes_core")
    if base in (core.NSAT, core.NSIG, core.NCELL):
        return "int"
    if base in core.RTCM_DATA_FIELDS:
        typ, _, res, _ = core.RTCM_DATA_FIELDS[base]
        if typ in (core.PRN, core.CELPRN, core.CELSIG, core.CHA, core.STR):
            return "str"
        if isinstance(res, float) and res not in (0, 1):
            return "float"
        return "int"
    return "int"


def array_sort(arity, rng):
    s = rng
    for _ in range(arity):
        s = z3.ArraySort(z3.IntSort(), s)
    return s


def select_n(arr, idx):
    t = arr
    for i in idx:
        t = z3.Select(t, i)
    return t


def store_n(arr, idx, v):
    if len(idx) == 1:
        return z3.Store(arr, idx[0], v)
    inner = z3.Select(arr, idx[0])
    return z3.Store(arr, idx[0], store_n(inner, idx[1:], v))


def default_of(kind):
    return {"int": z3.IntVal(0), "str": z3.StringVal(""), "float": z3.Const("float_default", sort_of_kind("float")), "bool": z3.BoolVal(False)}[kind]


def fresh_array(arity, kind):
    return z3.Const(fresh_name("arr"), array_sort(arity, sort_of_kind(kind)))


def const_false_array(arity):
    s = z3.BoolVal(False)
    for _ in range(arity):
        s = z3.K(z3.IntSort(), s)
    return s


def fresh_of_kind(kind, nm):
    if kind == "int":
        return SInt(z3.Int(nm))
    if kind == "bool":
        return SBool(z3.Bool(nm))
    return SOpaque(kind, z3.Const(nm, sort_of_kind(kind)))


def kind_of_value(v):
    v = norm(v)
    if isinstance(v, bool) or isinstance(v, SBool):
        return "bool"
    if isinstance(v, (int, SInt, SBits)):
        return "int"
    if isinstance(v, (str, SStr)):
        return "str"
    if isinstance(v, float):
        return "float"
    if isinstance(v, SOpaque):
        return v.kind
    return "any"


def term_of_kind(kind, v):
    v = norm(v)
    if kind == "int":
        return int_term(v)
    if kind == "bool":
        return bool_term(v) if not isinstance(v, bool) else z3.BoolVal(v)
    if kind == "str":
        if isinstance(v, str):
            return z3.StringVal(v)
        if isinstance(v, SOpaque):
            return v.t
    if kind == "float" and isinstance(v, SOpaque):
        return v.t
    raise EngineUnsupported(f"value {v!r} as {kind}")


def wrap_kind(kind, t):
    if kind == "int":
        return SInt(t)
    if kind == "bool":
        return SBool(t)
    return SOpaque(kind, t)
