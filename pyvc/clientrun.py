"""Lemmas over contracts: symbolic execution of the client programs of spec/clients.py with every
pyrtcm call replaced by its contract (caller view).  What is proved here is the *composition*
of the function contracts into the property statement."""
import ast
import hashlib
import os
import types

import z3

from pyvc import extract, ops
from pyvc.contract import REGISTRY, Unit
from pyvc.ops import bytes_len, norm
from pyvc.state import State, byte_at, to_bits
from pyvc.symex import Engine, Return
from pyvc.values import ByteArr, HList, HObject, RaiseExc, Ref, SBool, SBytes, SInt, View, as_sbytes, bits_to_int, bool_term, int_term

VERIF = os.path.dirname(os.path.dirname(os.path.abspath(__file__)))
NS = "spec.clients_ns"


def client_info(name):
    path = os.path.join(VERIF, "spec", "clients.py")
    src = open(path, "rb").read()
    tree = ast.parse(src)
    node = next(n for n in tree.body if isinstance(n, ast.FunctionDef) and n.name == name)
    fi = extract.FuncInfo.__new__(extract.FuncInfo)
    fi.qualname, fi.modname, fi.clsname, fi.node = f"spec.clients.{name}", NS, None, node
    fi.decorators, fi.is_property, fi.is_static = [], False, False
    fi.sha = hashlib.sha256(ast.dump(node).encode()).hexdigest()
    fi.file, fi.lineno = path, node.lineno
    fi.body = extract.strip_docstring(node.body)
    fi.params = [a.arg for a in node.args.args]
    fi.defaults = {}
    if NS not in extract._mods:
        extract.ensure_path()
        import pyrtcm
        m = types.ModuleType(NS)
        m.RTCMReader, m.RTCMMessage = pyrtcm.RTCMReader, pyrtcm.RTCMMessage
        from pyrtcm.exceptions import RTCMMessageError
        m.RTCMMessageError = RTCMMessageError
        extract._mods[NS] = m
    return fi


class _Obs:
    loops = {}


def run_client(name, setup, check):
    """setup(st) -> args dict;  check(eng, st0info, s, out) emits obligations."""
    eng = Engine(REGISTRY)
    st = State()
    args, info = setup(eng, st)
    fi = client_info(name)
    outs = eng.exec_function(fi, st, args, contract=_Obs())
    for s, out in outs:
        check(eng, info, s, out)
    return eng.obligations


# ---------------------------------------------------------------------------------------
def constructed_message(st, name="p"):
    from contracts.message import generic_payload, has_header, new_message
    from contracts.message_glue import parses_ok
    pv = generic_payload(st, name)
    payload = SBytes([pv])
    lm = SInt(z3.Int("labelmsm"))
    msg = new_message(st, payload, labelmsm=lm, immutable=True)
    # class invariant of a constructed message: it has an identity header and its payload parses; success of the
    # constructor does not depend on the label option (C16: the option only selects a label slot, which cannot raise)
    st.assume(has_header(st, payload), parses_ok(st, payload, lm), parses_ok(st, payload, 1), pv.length() <= 1023)
    return msg, pv, payload


def lemma_roundtrip():
    def setup(eng, st):
        msg, pv, payload = constructed_message(st)
        return {"msg": msg}, {"msg": msg, "pv": pv, "payload": payload}

    def check(eng, info, s, out):
        Q = "client.roundtrip_serialize_parse"
        if isinstance(out, RaiseExc):
            eng.oblige(f"{Q}.parse_of_serialized_message_never_fails", s, False, kind="exc", note=f"raises {out.cls.__name__}")
            return
        frame, again = out.v.v if isinstance(out.v, Return) else out.v
        pv = info["pv"]
        f = s.obj(again).fields
        from contracts.reader import is_slice
        eng.oblige(f"{Q}.same_payload", s, is_slice(f["_payload"], pv.arr, pv.lo, pv.hi))
        eng.cover(f"{Q}.reachable", s, True)
    return run_client("roundtrip_serialize_parse", setup, check)


def lemma_parse_serialize():
    """serialize(parse(f)) == f for every well-formed frame f (any type, incl. unknown)."""
    from contracts.helpers_crc import generic_view
    from spec import crc as sc

    def setup(eng, st):
        fv = generic_view(st, "fr")
        arr = fv.arr
        n = fv.length()
        b0, b1, b2 = byte_at(st, arr, fv.lo), byte_at(st, arr, fv.lo + 1), byte_at(st, arr, fv.lo + 2)
        # WFframe(f)
        st.assume(n >= 6, b0 == 0xD3, b1 < 4, b1 * 256 + b2 == n - 6)
        # arithmetic consequences of the length field, proved on this small context and then kept as facts
        from pyvc.state import entails
        for g in ((n - 6) / 256 == b1, (n - 6) % 256 == b2):
            assert entails(st.pc, g, 10000), "length-field arithmetic not provable"
            st.assume(g)
        zero = z3.IntVal(0)
        st.assume(sc.crcx(st, arr, zero, fv.lo, fv.hi) == 0)
        # definitional unfoldings of the spec CRC at the three header and the three trailer bytes, and the split
        # lemma instance CRCx(0, lo, hi-3) = CRCx(CRCx(0, lo, lo+3), lo+3, hi-3) (lemma.crc.split, discharged separately)
        st.assume(sc.crcx_base(st, arr, zero, fv.lo))
        for k in range(3):
            st.assume(sc.crcx_unfold(st, arr, zero, fv.lo, fv.lo + k))
        for k in (3, 2, 1):
            st.assume(sc.crcx_unfold(st, arr, zero, fv.lo, fv.hi - k))
        # instance of lemma.crc.trailer_unique: only be24(c) zeroes the register, c = CRC of the frame without its trailer
        from pyvc.state import INTBIT
        from spec.crc_lemmas import beq, nonzero, abits
        cpre = sc.crcx(st, arr, zero, fv.lo, fv.hi - 3)
        cb = [INTBIT(cpre, z3.IntVal(j)) for j in range(24)]
        tb = []  # trailer as 24 bits, LSB first: byte hi-1 is the low byte
        for k in (1, 2, 3):
            tb += abits(arr, fv.hi - k)
        s3 = cb
        for k in (3, 2, 1):
            s3 = sc.step_bits(s3, abits(arr, fv.hi - k))
        st.assume(z3.Implies(z3.Not(nonzero(s3)), beq(tb, cb)))
        c3 = sc.crcx(st, arr, zero, fv.lo, fv.lo + 3)
        st.assume(sc.crcx(st, arr, c3, fv.lo + 3, fv.hi - 3) == sc.crcx(st, arr, zero, fv.lo, fv.hi - 3))
        from contracts.message import has_header
        from contracts.message_glue import parses_ok
        payload = SBytes([View(arr, fv.lo + 3, fv.hi - 3)])
        st.assume(parses_ok(st, payload, 1))
        return {"frame": SBytes([fv])}, {"fv": fv}

    def check(eng, info, s, out):
        Q = "client.stub_serializes_to_same_frame"
        fv = info["fv"]
        if isinstance(out, RaiseExc):
            # a frame whose payload is too short for an identity is rejected by the constructor: not a message
            from contracts.message import has_header
            hh = has_header(s, SBytes([View(fv.arr, fv.lo + 3, fv.hi - 3)]))
            eng.oblige(f"{Q}.only_frames_without_message_number_are_rejected", s, z3.Not(hh), kind="exc", note=f"raises {out.cls.__name__}")
            return
        msg, res = out.v
        res = as_sbytes(norm(res))
        # byte-for-byte: same header, same length field, same payload slice, same trailer
        items = ops.bytes_items
        from pyvc.pybuiltin import bytes_item
        conds = []
        n = fv.length()
        conds.append(bytes_len(res) == n)
        for k in range(3):
            conds.append(bool_term(ops.int_eq(s, bytes_item(s, res, k), SInt(byte_at(s, fv.arr, fv.lo + k)))))
        segs = [x for x in res.segs if isinstance(x, View)]
        conds.append(z3.And(segs[0].lo == fv.lo + 3, segs[0].hi == fv.hi - 3) if len(segs) == 1 and segs[0].arr is fv.arr else z3.BoolVal(False))
        last = res.segs[-1]
        from pyvc.values import Items
        if isinstance(last, Items) and len(last.items) == 3:
            for k in range(3):
                conds.append(bool_term(ops.int_eq(s, last.items[k], SInt(byte_at(s, fv.arr, fv.hi - 3 + k)))))
        else:
            conds.append(z3.BoolVal(False))
        for i, c in enumerate(conds):
            eng.oblige(f"{Q}.same_frame_byte_for_byte.part{i}", s, c)
        eng.cover(f"{Q}.reachable", s, True)
    return run_client("stub_serializes_to_same_frame", setup, check)


def lemma_crc_split():
    """CRCx(CRCx(c, a, m), m, b) == CRCx(c, a, b): induction on b (bit level)."""
    from pyvc.state import INTBIT, Obligation
    from spec import crc as sc
    from spec.crc_lemmas import beq, abits
    arr = ByteArr.get("sp")
    f = sc.crcx_fun(arr)
    c, a, m, b = z3.Ints("c a m b")
    bits = lambda t: [INTBIT(t, z3.IntVal(j)) for j in range(24)]
    inner = f(c, a, m)
    unf = lambda c0, lo, hi: beq(bits(f(c0, lo, hi + 1)), sc.step_bits(bits(f(c0, lo, hi)), abits(arr, hi)))
    out = [Obligation("lemma.crc.split.base", [f(inner, m, m) == inner], f(inner, m, m) == f(c, a, m), kind="lemma")]
    ih = beq(bits(f(inner, m, b)), bits(f(c, a, b)))
    out.append(Obligation("lemma.crc.split.step", [b >= m, m >= a, ih, unf(inner, m, b), unf(c, a, b)],
                          beq(bits(f(inner, m, b + 1)), bits(f(c, a, b + 1))), kind="lemma"))
    return out


def lemma_two_reads():
    def setup(eng, st):
        from contracts.reader import new_reader, new_stream
        stream = new_stream(st)
        rd = new_reader(st, stream)
        return {"reader": rd}, {"stream": stream, "p0": st.obj(stream).fields["pos"]}

    def check(eng, info, s, out):
        Q = "client.two_reads"
        if isinstance(out, RaiseExc):
            eng.cover(f"{Q}.raise_mode_reachable", s, True)
            return
        a, b = out.v
        (ra, ma), (rb, mb) = a, b
        if ra is None or rb is None:
            return
        va, vb = as_sbytes(ra).segs[0], as_sbytes(rb).segs[0]
        eng.oblige(f"{Q}.second_frame_starts_at_or_after_the_end_of_the_first", s, z3.And(va.lo >= info["p0"], vb.lo >= va.hi, va.hi >= va.lo))
        eng.cover(f"{Q}.two_frames_reachable", s, True)
    return run_client("two_reads", setup, check)


def lemma_assignments():
    def setup(eng, st):
        msg, pv, payload = constructed_message(st)
        st.writes = set()
        return {"msg": msg, "value": SInt(z3.Int("value"))}, {"msg": msg}

    def check(eng, info, s, out):
        Q = "client.assignments_leave_message_unchanged"
        if isinstance(out, RaiseExc):
            eng.oblige(f"{Q}.no_foreign_exception", s, False, kind="exc", note=out.cls.__name__)
            return
        r = s.obj(out.v).items if isinstance(out.v, Ref) else None
        eng.oblige(f"{Q}.every_assignment_refused", s, z3.BoolVal(r == ["refused"] * 5), note=repr(r))
        eng.oblige(f"{Q}.message_not_written", s, z3.BoolVal(not any(w[0] == info["msg"].oid for w in s.writes)), kind="frame")
    return run_client("assignments_leave_message_unchanged", setup, check)


def lemma_validate_off():
    from contracts.helpers_crc import generic_view

    def setup(eng, st):
        fv = generic_view(st, "fr")
        return {"frame": SBytes([fv])}, {"fv": fv}

    def check(eng, info, s, out):
        Q = "client.parse_ignores_checksum_when_not_validating"
        fv = info["fv"]
        if isinstance(out, RaiseExc):
            from pyvc import extract as ex
            lib = (ex.module("pyrtcm.exceptions").RTCMMessageError, ex.module("pyrtcm.exceptions").RTCMTypeError)
            eng.oblige(f"{Q}.never_a_parse_error", s, z3.BoolVal(out.cls in lib), kind="exc", note=out.cls.__name__)
            return
        from contracts.reader import is_slice
        f = s.obj(out.v).fields
        eng.oblige(f"{Q}.result_built_from_message_3_to_minus3_only", s, is_slice(f["_payload"], fv.arr, fv.lo + 3, z3.If(fv.hi - 3 >= fv.lo + 3, fv.hi - 3, fv.lo + 3)))
    return run_client("parse_ignores_checksum_when_not_validating", setup, check)


def unit(name, fn):
    return Unit("lemma", f"client.{name}", fn=fn)


def lemma_df002_is_identity():
    """C15: for implemented types the decoded message-number field equals the identity: the leaf value of DF002 at
    offset 0 (first 12 payload bits, unsigned - L1 contract) is the number identity() prints; for 4076 the leaf value of
    IDF002 at offset 15 (DF002:12 + IDF001:3, ground-checked) is the sub-type."""
    from pyvc.state import Obligation
    extract.ensure_path()
    C = extract.module("pyrtcm.rtcmtypes_core")
    arr = ByteArr.get("p")
    lo = z3.Int("p_lo")
    st = State()
    p0, p1, p2 = (byte_at(st, arr, lo + k) for k in range(3))
    bit = lambda k: arr.bit(z3.simplify(8 * lo + k))
    expand = [p == bits_to_int([bit(8 * i + (7 - j)) for j in range(8)]) for i, p in enumerate((p0, p1, p2))]  # definition of the bit function
    out = []
    w = C.RTCM_DATA_FIELDS["DF002"][1]
    df002 = bits_to_int([bit(w - 1 - j) for j in range(w)])
    out.append(Obligation("client.df002_leaf_value_is_identity_number", st.pc + expand + [lo >= 0],
                          z3.And(z3.BoolVal(w == 12 and C.RTCM_DATA_FIELDS["DF002"][0] == "UINT" and C.RTCM_DATA_FIELDS["DF002"][2] in (0, 1)),
                                 df002 == p0 * 16 + p1 / 16), kind="lemma"))
    w1, w2 = C.RTCM_DATA_FIELDS["IDF001"][1], C.RTCM_DATA_FIELDS["IDF002"][1]
    off = w + w1
    idf002 = bits_to_int([bit(off + w2 - 1 - j) for j in range(w2)])
    out.append(Obligation("client.idf002_leaf_value_is_4076_subtype", st.pc + expand + [lo >= 0],
                          z3.And(z3.BoolVal(off == 15 and w2 == 8 and C.RTCM_DATA_FIELDS["IDF002"][0] == "UINT" and C.RTCM_DATA_FIELDS["IDF002"][2] in (0, 1)),
                                 idf002 == (p1 % 2) * 128 + p2 / 2), kind="lemma"))
    return out
