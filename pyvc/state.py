"""Symbolic state, obligations, and solver helpers used during symbolic execution."""
from __future__ import annotations

import time
import z3

from pyvc.values import (
    AttrEntry, EngineUnsupported, HDict, HList, HMap, HObject, HSeq, hmap_from_dict, Ref, SBits, SBool, SInt,
    SOpaque, Sym, UNDEF, bits_to_int, bool_term, fresh_name, int_term, zite,
)


class State:
    def __init__(self):
        self.env = {}
        self.heap = {}
        self.pc = []
        self.ghost = {}
        self.bitcache = {}  # z3 term id -> (term, [Bool bits])  (unique binary expansion)
        self.writes = set()  # (oid, key) heap writes since the last loop head
        self.fresh_objs = set()
        self.next_oid = [1]

    def fork(self):
        s = State()
        s.env = dict(self.env)
        s.heap = {k: v.copy() for k, v in self.heap.items()}
        s.pc = list(self.pc)
        s.ghost = dict(self.ghost)
        s.bitcache = dict(self.bitcache)
        s.writes = set(self.writes)
        s.fresh_objs = set(self.fresh_objs)
        s.next_oid = self.next_oid  # shared counter: oids are unique across forks
        return s

    def alloc(self, obj):
        oid = self.next_oid[0]
        self.next_oid[0] += 1
        self.heap[oid] = obj
        self.fresh_objs.add(oid)
        return Ref(oid)

    def assume(self, *terms):
        for t in terms:
            if t is True:
                continue
            if t is False:
                t = z3.BoolVal(False)
            self.pc.append(t)

    def obj(self, ref):
        return self.heap[ref.oid]


class Obligation:
    def __init__(self, name, hyps, goal, kind="post", site=None, observe=None, note=None):
        self.name = name
        self.hyps = list(hyps)
        self.goal = goal
        self.kind = kind
        self.site = site
        self.observe = observe or {}
        self.note = note
        self.verdict = None  # 'proved' | 'refuted' | 'unknown'
        self.solver = None
        self.seconds = 0.0
        self.model = None
        self.reason = None


def quick_solver(timeout_ms=2000):
    s = z3.Solver()
    s.set("timeout", timeout_ms)
    return s


import os as _os
FEAS_MS = int(_os.environ.get("PYVC_FEAS_MS", "400"))  # per path-feasibility query; unknown counts as feasible


def feasible(pc, extra=None, timeout_ms=None):
    timeout_ms = timeout_ms or FEAS_MS
    """False only if pc (and extra) is definitely unsatisfiable."""
    s = quick_solver(timeout_ms)
    for t in pc:
        s.add(t)
    if extra is not None:
        s.add(extra)
    import time as _t
    w0, c0 = _t.time(), _t.process_time()
    r = s.check()
    if r == z3.unknown:
        # An unanswered query counts as 'feasible' (sound: more paths explored), but a path that is really infeasible can make a unit
        # leave the modelled subset.  The budget is wall-clock; if this process got markedly less CPU than wall time (machine under
        # load), the query is asked again with the budget scaled up accordingly, so that verdicts do not depend on the load.
        wall, cpu = _t.time() - w0, _t.process_time() - c0
        if cpu < 0.7 * wall:
            UNKNOWN_STATS["retried"] += 1
            s.set("timeout", int(min(8.0, max(2.0, wall / max(cpu, 1e-3))) * timeout_ms))
            r = s.check()
    return r != z3.unsat


UNKNOWN_STATS = {"retried": 0, "still_unknown": 0}


def entails(pc, goal, timeout_ms=2000):
    """True only if pc definitely implies goal."""
    if goal is True:
        return True
    if goal is False:
        goal = z3.BoolVal(False)
    g = z3.simplify(goal)
    if z3.is_true(g):
        return True
    s = quick_solver(timeout_ms)
    for t in pc:
        s.add(t)
    s.add(z3.Not(g))
    return s.check() == z3.unsat


def determined_int(pc, term, timeout_ms=2000):
    """If pc forces `term` to a single integer value return it, else None."""
    t = z3.simplify(term)
    if z3.is_int_value(t):
        return t.as_long()
    s = quick_solver(timeout_ms)
    for p in pc:
        s.add(p)
    if s.check() != z3.sat:
        return None
    v = s.model().eval(t, model_completion=True)
    if not z3.is_int_value(v):
        return None
    s.add(t != v)
    if s.check() == z3.unsat:
        return v.as_long()
    return None


# ----------------------------------------------------------------------------------------
# Int term -> bit list (unique binary expansion, sound only under a proved range)
# ----------------------------------------------------------------------------------------
INTBIT = z3.Function("intbit", z3.IntSort(), z3.IntSort(), z3.BoolSort())
WIDTHS = (1, 2, 4, 8, 10, 12, 16, 24, 25, 32, 33, 64, 65)


def to_bits(st, v, want=None):
    """Bit-list (LSB first) of a non-negative int-like value."""
    if isinstance(v, bool):
        v = int(v)
    if isinstance(v, int):
        if v < 0:
            raise EngineUnsupported("bit operation on a negative concrete int")
        return [bool((v >> j) & 1) for j in range(v.bit_length())]
    if isinstance(v, SBits):
        return list(v.bits)
    if isinstance(v, SBool):
        return [v.t]
    if isinstance(v, SInt):
        t = z3.simplify(v.t)
        if z3.is_int_value(t):
            return to_bits(st, t.as_long())
        key = t.get_id()
        if key in st.bitcache:
            return list(st.bitcache[key][1])
        # byte of a ghost array: use the array's own bit function so that bytes and the
        # payload integer share their bit variables
        dec = _byte_app(t)
        if dec is not None:
            arr, idx = dec
            bits = [arr.bit(8 * idx + (7 - j)) for j in range(8)]
            st.assume(t == bits_to_int(bits))
            st.bitcache[key] = (t, bits)
            return list(bits)
        for w in WIDTHS:
            if entails(st.pc, z3.And(t >= 0, t < (1 << w))):
                # bits are *functions of the integer* (INTBIT), so equal integers have equal
                # bits by congruence; the expansion fact is sound because 0 <= t < 2^w was
                # just proved from the path condition
                bits = [INTBIT(t, z3.IntVal(j)) for j in range(w)]
                st.assume(t == bits_to_int(bits))
                st.bitcache[key] = (t, bits)
                return list(bits)
        raise EngineUnsupported(f"bit operation on an integer with no provable width: {t}")
    raise EngineUnsupported(f"bit operation on {v!r}")


_byte_arrays = {}


def register_array(arr):
    _byte_arrays[arr.f.name()] = arr


def _byte_app(t):
    if z3.is_app(t) and t.num_args() == 1 and t.decl().name() in _byte_arrays:
        return _byte_arrays[t.decl().name()], t.arg(0)
    return None


def byte_at(st, arr, idx):
    """Int term arr[idx] with its range fact."""
    register_array(arr)
    t = arr.f(idx)
    st.assume(z3.And(t >= 0, t <= 255))
    return t


# ----------------------------------------------------------------------------------------
# merging two states after an if/else whose branches both fall through
# ----------------------------------------------------------------------------------------
class NoMerge(Exception):
    pass


def merge_val(c, a, b):
    if a is b:
        return a
    if isinstance(a, bool) and isinstance(b, bool):
        return a if a == b else SBool(c if a else z3.Not(c))
    if isinstance(a, (bool, SBool)) and isinstance(b, (bool, SBool)):
        return SBool(z3.If(c, bool_term(a), bool_term(b)))
    if isinstance(a, (int, SInt, SBits)) and isinstance(b, (int, SInt, SBits)):
        if isinstance(a, int) and isinstance(b, int) and a == b:
            return a
        abits = isinstance(a, SBits) or (isinstance(a, int) and a >= 0)
        bbits = isinstance(b, SBits) or (isinstance(b, int) and b >= 0)
        if abits and bbits and (isinstance(a, SBits) or isinstance(b, SBits)):
            ba = a.bits if isinstance(a, SBits) else [bool((a >> j) & 1) for j in range(a.bit_length())]
            bb = b.bits if isinstance(b, SBits) else [bool((b >> j) & 1) for j in range(b.bit_length())]
            n = max(len(ba), len(bb))
            ba = list(ba) + [False] * (n - len(ba))
            bb = list(bb) + [False] * (n - len(bb))
            out = []
            for x, y in zip(ba, bb):
                m = zite(c, x, y)
                if not isinstance(m, bool):
                    m = z3.simplify(m)
                out.append(m)
            return SBits(out)
        return SInt(z3.If(c, int_term(a), int_term(b)))
    if isinstance(a, SOpaque) and isinstance(b, SOpaque) and a.kind == b.kind:
        return SOpaque(a.kind, z3.If(c, a.t, b.t))
    if isinstance(a, (str, SOpaque)) and isinstance(b, (str, SOpaque)):
        za = z3.StringVal(a) if isinstance(a, str) else (a.t if a.kind == "str" else None)
        zb = z3.StringVal(b) if isinstance(b, str) else (b.t if b.kind == "str" else None)
        if za is not None and zb is not None:
            if isinstance(a, str) and isinstance(b, str) and a == b:
                return a
            return SOpaque("str", z3.If(c, za, zb))
    if isinstance(a, Ref) and isinstance(b, Ref) and a.oid == b.oid:
        return a
    if isinstance(a, tuple) and isinstance(b, tuple) and len(a) == len(b):
        return tuple(merge_val(c, x, y) for x, y in zip(a, b))
    if not isinstance(a, Sym) and not isinstance(b, Sym):
        try:
            if type(a) is type(b) and a == b:
                return a
        except Exception:
            pass
    raise NoMerge(f"{a!r} / {b!r}")


def merge_entry(c, a, b):
    if a.kind != b.kind:
        raise NoMerge("attr kind")
    if isinstance(a.val, z3.ExprRef) and isinstance(b.val, z3.ExprRef) and z3.is_array(a.val):
        val = a.val if a.val.eq(b.val) else z3.If(c, a.val, b.val)
        dom = a.dom if a.dom.eq(b.dom) else z3.If(c, a.dom, b.dom)
        return AttrEntry(a.kind, val, dom)
    val = merge_val(c, a.val, b.val)
    da, db = a.dom, b.dom
    dom = da if (da is db or (isinstance(da, bool) and isinstance(db, bool) and da == db)) else zite(c, da, db)
    return AttrEntry(a.kind, val, dom)


def merge_states(c, base, a, b, strict=False):
    """Merge states a (cond c) and b (not c), both forked from `base`.  strict: a local that
    cannot be merged makes the merge fail instead of being poisoned."""
    if set(a.heap) != set(b.heap):
        raise NoMerge("heap shape")
    out = a.fork()
    out.env = {}
    for k in set(a.env) | set(b.env):
        if k in a.env and k in b.env:
            try:
                out.env[k] = merge_val(c, a.env[k], b.env[k])
            except NoMerge:
                if strict:
                    raise
                out.env[k] = UNDEF  # poison: any later use makes the function 'unsupported', never a wrong verdict
        else:
            out.env[k] = UNDEF
    for k in set(a.ghost) | set(b.ghost):
        out.ghost[k] = merge_val(c, a.ghost[k], b.ghost[k])
    for oid in a.heap:
        oa, ob = a.heap[oid], b.heap[oid]
        try:
            if isinstance(oa, HDict) and isinstance(ob, HDict) and list(oa.d) != list(ob.d):
                oa, ob = hmap_from_dict(oa.d), hmap_from_dict(ob.d)
            if isinstance(oa, HDict) and isinstance(ob, HMap):
                oa = hmap_from_dict(oa.d)
            if isinstance(ob, HDict) and isinstance(oa, HMap):
                ob = hmap_from_dict(ob.d)
            if isinstance(oa, HList) and isinstance(ob, HList) and len(oa.items) != len(ob.items):
                oa, ob = HSeq.from_list(oa.items), HSeq.from_list(ob.items)
            if isinstance(oa, HList) and isinstance(ob, HSeq):
                oa = HSeq.from_list(oa.items)
            if isinstance(ob, HList) and isinstance(oa, HSeq):
                ob = HSeq.from_list(ob.items)
        except EngineUnsupported as e:
            raise NoMerge(str(e))
        if type(oa) is not type(ob):
            raise NoMerge("heap obj type")
        if isinstance(oa, HList):
            if len(oa.items) != len(ob.items):
                raise NoMerge("list length")
            out.heap[oid] = HList([merge_val(c, x, y) for x, y in zip(oa.items, ob.items)])
        elif isinstance(oa, HDict):
            if list(oa.d) != list(ob.d):
                raise NoMerge("dict keys")
            out.heap[oid] = HDict({k: merge_val(c, oa.d[k], ob.d[k]) for k in oa.d})
        elif isinstance(oa, HMap):
            if oa.kind != ob.kind:
                if oa.kind is None or ob.kind is None:
                    # one branch stored the first value: give the other a default-valued shape
                    full = oa if oa.kind is not None else ob
                    empty = ob if oa.kind is not None else oa
                    empty.kind, empty.tuple_valued = full.kind, full.tuple_valued
                    empty.val = tuple(z3.K(z3.IntSort(), z3.StringVal("")) for _ in full.val)
                else:
                    raise NoMerge("map shape")
            out.heap[oid] = HMap(oa.kind,
                                 oa.val if _same(oa.val, ob.val) else _ite_any(c, oa.val, ob.val),
                                 oa.dom if _same(oa.dom, ob.dom) else z3.If(c, oa.dom, ob.dom),
                                 oa.tuple_valued)
        elif isinstance(oa, HSeq):
            if oa.kind != ob.kind:
                raise NoMerge("sequence kind")
            out.heap[oid] = HSeq(z3.simplify(z3.If(c, oa.n, ob.n)), oa.arr if oa.arr.eq(ob.arr) else z3.If(c, oa.arr, ob.arr), oa.kind)
        elif isinstance(oa, HObject):
            o = oa.copy()
            if set(oa.fields) != set(ob.fields):
                raise NoMerge("fields")
            for k in oa.fields:
                o.fields[k] = merge_val(c, oa.fields[k], ob.fields[k])
            if set(oa.attrs) != set(ob.attrs):
                raise NoMerge("attrs")
            for k in oa.attrs:
                o.attrs[k] = merge_entry(c, oa.attrs[k], ob.attrs[k])
            o.written = oa.written | ob.written
            out.heap[oid] = o
        else:
            raise NoMerge("heap obj kind")
    n = len(base.pc)
    ea, eb = a.pc[n:], b.pc[n:]
    out.pc = list(base.pc)
    if ea:
        out.pc.append(z3.Implies(c, z3.And(*ea) if len(ea) > 1 else ea[0]))
    if eb:
        out.pc.append(z3.Implies(z3.Not(c), z3.And(*eb) if len(eb) > 1 else eb[0]))
    out.bitcache = dict(base.bitcache)
    out.writes = a.writes | b.writes
    out.fresh_objs = a.fresh_objs | b.fresh_objs
    return out


def _same(x, y):
    if isinstance(x, tuple):
        return all(_same(p, q) for p, q in zip(x, y))
    return x.eq(y)


def _ite_any(c, x, y):
    if isinstance(x, tuple):
        return tuple(_ite_any(c, p, q) for p, q in zip(x, y))
    return x if x.eq(y) else z3.If(c, x, y)
