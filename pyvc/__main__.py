import sys
from pyvc.cli import main
sys.exit(main(sys.argv[1:]))
