"""Contract registry and unit descriptions.

A *contract* describes one function of /repo (or one external dependency) in two views that
share the same postcondition terms:

* caller view  `apply(eng, st, selfv, args, kwargs, site)` -> [(state, value | RaiseExc)]
  (assert pre, havoc frame, assume post; fork per exceptional post)
* callee view  `verify(eng, inst)`  symbolic execution of the real body from a generic
  pre-state, one obligation per (path x postcondition).

Contracts live in /verif/contracts/*.py; nothing in /repo is touched.
"""
from __future__ import annotations

REGISTRY = {}
TRUSTED = {}  # qualname -> text: external / assumed contracts (never verified)


class Contract:
    qualname = None
    loops = {}
    trusted = None  # text when the contract is an assumption about external code

    def apply(self, eng, st, selfv, args, kwargs, site):
        raise NotImplementedError(self.qualname)

    def instances(self, tier):
        return [None]

    def verify(self, eng, inst):
        raise NotImplementedError(self.qualname)


def register(c):
    inst = c() if isinstance(c, type) else c
    REGISTRY[inst.qualname] = inst
    if inst.trusted:
        TRUSTED[inst.qualname] = inst.trusted
    return c


class Unit:
    """One schedulable piece of work."""

    def __init__(self, kind, name, fn=None, qualname=None, inst=None, serves=None):
        self.kind = kind  # 'func' | 'lemma' | 'ground'
        self.name = name
        self.fn = fn
        self.qualname = qualname
        self.inst = inst
        self.serves = serves


def func_units(qualname, tier, only=None):
    c = REGISTRY[qualname]
    out = []
    for inst in c.instances(tier):
        if only is not None and not only(inst):
            continue
        nm = qualname if inst is None else f"{qualname}[{inst_name(inst)}]"
        out.append(Unit("func", nm, qualname=qualname, inst=inst))
    return out


def inst_name(inst):
    if isinstance(inst, dict):
        return ",".join(f"{k}={v}" for k, v in inst.items() if not k.startswith("_"))
    return str(inst)
