"""Mechanical extraction of function bodies from the working tree (DESIGN 1.2).

Nothing here is cached between runs: every call re-reads $VERIF_REPO/src/pyrtcm/*.py.
What extraction drops: docstrings, comments/pragmas, type annotations.  What it may change: local variable names, renamed
consistently back to the names pinned in spec/pinned_locals.json when (and only when) the function has exactly the pinned shape
apart from those names (FuncInfo.alpha records the renaming; it is listed in the evidence).  Calls on a logger
are modelled as no-ops by the executor (symex.py), everything else is executed or makes the
function *unsupported*.
"""
import ast
import hashlib
import importlib
import os
import sys

REPO = os.environ.get("VERIF_REPO", "/repo")
SRC = os.path.join(REPO, "src")
PKG = "pyrtcm"


def ensure_path():
    if SRC not in sys.path:
        sys.path.insert(0, SRC)


_mods = {}
_asts = {}


def module(modname):
    ensure_path()
    if modname not in _mods:
        _mods[modname] = importlib.import_module(modname)
    return _mods[modname]


def module_file(modname):
    return os.path.join(SRC, *modname.split(".")) + ".py"


def module_ast(modname):
    if modname not in _asts:
        path = module_file(modname)
        with open(path, "rb") as f:
            src = f.read()
        _asts[modname] = (ast.parse(src, filename=path), src)
    return _asts[modname]


def file_sha(modname):
    return hashlib.sha256(module_ast(modname)[1]).hexdigest()


def local_names(node):
    """Names bound inside the function other than its parameters, in order of first binding (source order)."""
    params = {a.arg for a in node.args.args + node.args.kwonlyargs + node.args.posonlyargs}
    if node.args.vararg:
        params.add(node.args.vararg.arg)
    if node.args.kwarg:
        params.add(node.args.kwarg.arg)
    seen = []
    binds = []
    for n in ast.walk(node):
        if isinstance(n, ast.Name) and isinstance(n.ctx, (ast.Store, ast.Del)):
            binds.append((n.lineno, n.col_offset, n.id))
        elif isinstance(n, ast.ExceptHandler) and n.name:
            binds.append((n.lineno, n.col_offset, n.name))
    for _, _, name in sorted(binds):
        if name not in params and name not in seen:
            seen.append(name)
    return seen


class _Alpha(ast.NodeTransformer):
    def __init__(self, mapping):
        self.mapping = mapping

    def visit_Name(self, n):
        if n.id in self.mapping:
            n.id = self.mapping[n.id]
        return n

    def visit_ExceptHandler(self, n):
        if n.name in self.mapping:
            n.name = self.mapping[n.name]
        self.generic_visit(n)
        return n


def shape_of(node, locals_):
    """Hash of the function with its local names replaced by their ordinal: equal for two functions that differ only in how
    their locals are called (docstring, annotations and positions do not enter)."""
    import copy
    c = copy.deepcopy(node)
    c.body = strip_docstring(c.body)
    c.returns = None
    for a in c.args.args + c.args.kwonlyargs:
        a.annotation = None
    c = _Alpha({n: f"__local{i}__" for i, n in enumerate(locals_)}).visit(c)
    for n in ast.walk(c):
        if isinstance(n, ast.AnnAssign):
            n.annotation = ast.Constant(None)
    return hashlib.sha256(ast.dump(c, include_attributes=False).encode()).hexdigest()


_pinned_locals = None


def pinned_locals():
    global _pinned_locals
    if _pinned_locals is None:
        import json
        p = os.path.join(os.path.dirname(os.path.dirname(os.path.abspath(__file__))), "spec", "pinned_locals.json")
        _pinned_locals = json.load(open(p)) if os.path.exists(p) else {}
    return _pinned_locals


class FuncInfo:
    def __init__(self, qualname, modname, clsname, node, src, decorators):
        self.qualname = qualname
        self.modname = modname
        self.clsname = clsname
        # Sidecar invariants name some locals.  If the function differs from the one the sidecars were written against ONLY in how
        # its locals are called (same shape hash), the locals are renamed back, consistently, in the extracted copy - the verified
        # text is then the real code up to alpha-conversion, applied mechanically; any other difference leaves the text untouched.
        self.locals = local_names(node)
        self.shape = shape_of(node, self.locals)
        self.alpha = {}
        pin = pinned_locals().get(qualname)
        if pin and pin["shape"] == self.shape and pin["locals"] != self.locals and len(pin["locals"]) == len(self.locals):
            mapping = {cur: old for cur, old in zip(self.locals, pin["locals"]) if cur != old}
            # two-step renaming so that a swap of two names is handled
            tmp = {cur: f"__alpha{i}__" for i, cur in enumerate(mapping)}
            import copy
            node = _Alpha(tmp).visit(copy.deepcopy(node))
            node = _Alpha({t: mapping[cur] for cur, t in tmp.items()}).visit(node)
            self.alpha = mapping
        self.node = node
        self.decorators = decorators
        self.is_property = "property" in decorators
        self.is_static = "staticmethod" in decorators
        seg = ast.get_source_segment(src.decode("utf8"), node) or ""
        self.sha = hashlib.sha256(seg.encode("utf8")).hexdigest()
        self.file = module_file(modname)
        self.lineno = node.lineno
        self.body = strip_docstring(node.body)
        self.params = [a.arg for a in node.args.args]
        nd = len(node.args.defaults)
        self.defaults = {}
        for a, d in zip(node.args.args[len(node.args.args) - nd:], node.args.defaults):
            self.defaults[a.arg] = d


def strip_docstring(body):
    if body and isinstance(body[0], ast.Expr) and isinstance(body[0].value, ast.Constant) and isinstance(body[0].value.value, str):
        return body[1:]
    return body


_funcs = {}


def _decos(node):
    out = []
    for d in node.decorator_list:
        if isinstance(d, ast.Name):
            out.append(d.id)
        elif isinstance(d, ast.Attribute):
            out.append(d.attr)
        else:
            out.append(ast.dump(d))
    return out


def index_module(modname):
    tree, src = module_ast(modname)
    for node in tree.body:
        if isinstance(node, ast.FunctionDef):
            q = f"{modname}.{node.name}"
            _funcs[q] = FuncInfo(q, modname, None, node, src, _decos(node))
        elif isinstance(node, ast.ClassDef):
            for sub in node.body:
                if isinstance(sub, ast.FunctionDef):
                    q = f"{modname}.{node.name}.{sub.name}"
                    _funcs[q] = FuncInfo(q, modname, node.name, sub, src, _decos(sub))


MODULES = [
    "pyrtcm.rtcmhelpers",
    "pyrtcm.rtcmmessage",
    "pyrtcm.rtcmreader",
    "pyrtcm.socketwrapper",
]


def functions():
    if not _funcs:
        for m in MODULES:
            index_module(m)
    return _funcs


def func(qualname):
    fs = functions()
    if qualname not in fs:
        raise KeyError(f"function {qualname} not found in working tree")
    return fs[qualname]


def class_has(modname, clsname, name):
    return f"{modname}.{clsname}.{name}" in functions()


def source_shas():
    out = {}
    for m in MODULES + ["pyrtcm.rtcmtypes_core", "pyrtcm.rtcmtypes_get", "pyrtcm.rtcmtypes_get_msm",
                        "pyrtcm.rtcmtypes_get_igs", "pyrtcm.rtcmtables", "pyrtcm.exceptions"]:
        out[m] = file_sha(m)
    return out
