"""Mechanical extraction of function bodies from the working tree (DESIGN 1.2).

Nothing here is cached between runs: every call re-reads $VERIF_REPO/src/pyrtcm/*.py.
What extraction drops: docstrings, comments/pragmas, type annotations.  Calls on a logger
are modelled as no-ops by the executor (symex.py), everything else is executed or makes the
function *unsupported*.
"""
import ast
import hashlib
import importlib
import os
import sys

REPO = os.environ.get("VERIF_REPO", "/repo")
SRC = os.path.join(REPO, "src")
PKG = "pyrtcm"


def ensure_path():
    if SRC not in sys.path:
        sys.path.insert(0, SRC)


_mods = {}
_asts = {}


def module(modname):
    ensure_path()
    if modname not in _mods:
        _mods[modname] = importlib.import_module(modname)
    return _mods[modname]


def module_file(modname):
    return os.path.join(SRC, *modname.split(".")) + ".py"


def module_ast(modname):
    if modname not in _asts:
        path = module_file(modname)
        with open(path, "rb") as f:
            src = f.read()
        _asts[modname] = (ast.parse(src, filename=path), src)
    return _asts[modname]


def file_sha(modname):
    return hashlib.sha256(module_ast(modname)[1]).hexdigest()


class FuncInfo:
    def __init__(self, qualname, modname, clsname, node, src, decorators):
        self.qualname = qualname
        self.modname = modname
        self.clsname = clsname
        self.node = node
        self.decorators = decorators
        self.is_property = "property" in decorators
        self.is_static = "staticmethod" in decorators
        seg = ast.get_source_segment(src.decode("utf8"), node) or ""
        self.sha = hashlib.sha256(seg.encode("utf8")).hexdigest()
        self.file = module_file(modname)
        self.lineno = node.lineno
        self.body = strip_docstring(node.body)
        self.params = [a.arg for a in node.args.args]
        nd = len(node.args.defaults)
        self.defaults = {}
        for a, d in zip(node.args.args[len(node.args.args) - nd:], node.args.defaults):
            self.defaults[a.arg] = d


def strip_docstring(body):
    if body and isinstance(body[0], ast.Expr) and isinstance(body[0].value, ast.Constant) and isinstance(body[0].value.value, str):
        return body[1:]
    return body


_funcs = {}


def _decos(node):
    out = []
    for d in node.decorator_list:
        if isinstance(d, ast.Name):
            out.append(d.id)
        elif isinstance(d, ast.Attribute):
            out.append(d.attr)
        else:
            out.append(ast.dump(d))
    return out


def index_module(modname):
    tree, src = module_ast(modname)
    for node in tree.body:
        if isinstance(node, ast.FunctionDef):
            q = f"{modname}.{node.name}"
            _funcs[q] = FuncInfo(q, modname, None, node, src, _decos(node))
        elif isinstance(node, ast.ClassDef):
            for sub in node.body:
                if isinstance(sub, ast.FunctionDef):
                    q = f"{modname}.{node.name}.{sub.name}"
                    _funcs[q] = FuncInfo(q, modname, node.name, sub, src, _decos(sub))


MODULES = [
    "pyrtcm.rtcmhelpers",
    "pyrtcm.rtcmmessage",
    "pyrtcm.rtcmreader",
    "pyrtcm.socketwrapper",
]


def functions():
    if not _funcs:
        for m in MODULES:
            index_module(m)
    return _funcs


def func(qualname):
    fs = functions()
    if qualname not in fs:
        raise KeyError(f"function {qualname} not found in working tree")
    return fs[qualname]


def class_has(modname, clsname, name):
    return f"{modname}.{clsname}.{name}" in functions()


def source_shas():
    out = {}
    for m in MODULES + ["pyrtcm.rtcmtypes_core", "pyrtcm.rtcmtypes_get", "pyrtcm.rtcmtypes_get_msm",
                        "pyrtcm.rtcmtypes_get_igs", "pyrtcm.rtcmtables", "pyrtcm.exceptions"]:
        out[m] = file_sha(m)
    return out
