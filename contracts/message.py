"""Contracts: pyrtcm.rtcmmessage.RTCMMessage basic members (DESIGN C07, C14, C15)."""
import z3

from pyvc import extract, ops
from pyvc.contract import Contract, register
from pyvc.ops import bytes_len, norm
from pyvc.state import State, determined_int, feasible, to_bits
from pyvc.symex import Return, ReprSeg
from pyvc.values import (
    ByteArr, Fmt, HObject, Items, RaiseExc, Ref, SBits, SBool, SBytes, SInt, SStr, View, as_sbytes,
    bool_term, int_term,
)
from spec import ident as specid

M = "pyrtcm.rtcmmessage.RTCMMessage"


def exc(name):
    return getattr(extract.module("pyrtcm.exceptions"), name)


def new_message(st, payload, labelmsm=None, immutable=False, dynamic=True):
    """A heap object of class RTCMMessage with the fixed private fields.  The label option is symbolic unless the caller fixes it:
    a function that must not depend on it (repr, serialize, identity, ...) is then verified for every value of it."""
    if labelmsm is None:
        from pyvc.values import fresh_name as _fn
        labelmsm = SInt(z3.Int(_fn("labelmsm")))
    o = HObject(M)
    o.pycls = extract.module("pyrtcm.rtcmmessage").RTCMMessage
    o.dynamic = dynamic
    o.symbolic_pre = False
    o.pre = {}
    o.fields.update({"_payload": payload, "_labelmsm": labelmsm, "_immutable": immutable})
    if immutable is True:  # a constructed message: the other private fields exist, contents unknown
        from pyvc.values import STruthy, fresh_name
        o.fields.update({"_unknown": SBool(z3.Bool(fresh_name("unknown"))), "_satmap": STruthy(z3.Bool(fresh_name("satmap"))),
                         "_cellmap": STruthy(z3.Bool(fresh_name("cellmap")))})
    return st.alloc(o)


def generic_payload(st, name="p", minlen=None):
    arr = ByteArr.get(name)
    lo, hi = z3.Int(f"{name}_lo"), z3.Int(f"{name}_hi")
    st.assume(lo >= 0, hi >= lo)
    if minlen is not None:
        st.assume(hi - lo >= minlen)
    return View(arr, lo, hi)


def payload_of(st, selfv):
    return st.obj(selfv).fields["_payload"]


def header_terms(st, payload):
    """(len, p0, p1, p2) Int terms of a payload value (p_i meaningful only when i < len)."""
    from pyvc.pybuiltin import bytes_item
    b = as_sbytes(payload)
    n = bytes_len(b)
    ps = []
    for i in range(3):
        r = bytes_item(st, b, i)
        if isinstance(r, ops.Cases):
            vals = [v for g, v in r.cases if not isinstance(v, RaiseExc)]
            ps.append(int_term(vals[0]) if vals else z3.IntVal(0))
        else:
            ps.append(int_term(r))
    return n, ps[0], ps[1], ps[2]


def has_header(st, payload):
    """Class invariant established by __init__: the payload holds its identity header."""
    n, p0, p1, p2 = header_terms(st, payload)
    mid = p0 * 16 + p1 / 16
    return z3.And(n >= 2, z3.Implies(mid == 4076, n >= 3))


@register
class Identity(Contract):
    qualname = M + ".identity"

    # ensures result == Ident(first 12 bits [, sub-type]);  raises IndexError iff too short
    def spec(self, st, payload):
        """-> (too_short Bool, is4076 Bool, mid Int, sub Int)"""
        n, p0, p1, p2 = header_terms(st, payload)
        mid = p0 * 16 + p1 / 16
        sub = (p1 % 2) * 128 + p2 / 2
        too_short = z3.Or(n < 2, z3.And(mid == 4076, n < 3))
        return too_short, mid == 4076, mid, sub

    def apply(self, eng, st, selfv, args, kwargs, site):
        payload = payload_of(st, selfv)
        if isinstance(payload, bytes):
            try:
                return [(st, specid.ident(payload))]
            except IndexError:
                return [(st, RaiseExc(IndexError, "index out of range"))]
        too_short, is4076, mid, sub = self.spec(st, payload)
        outs = []
        for s, b in eng.branch(st, too_short):
            if b:
                outs.append((s, RaiseExc(IndexError, "index out of range")))
                continue
            for s2, b2 in eng.branch(s, is4076):
                if b2:
                    c = determined_int(s2.pc, sub)
                    outs.append((s2, "4076_%03d" % c if c is not None else SStr(["4076_", Fmt("03d", SInt(sub))])))
                else:
                    c = determined_int(s2.pc, mid)
                    outs.append((s2, str(c) if c is not None else SStr([Fmt("d", SInt(mid))])))
        return outs

    def verify(self, eng, inst):
        fi = extract.func(self.qualname)
        st = State()
        pv = generic_payload(st)
        payload = SBytes([pv])
        selfv = new_message(st, payload)
        too_short, is4076, mid, sub = self.spec(st, payload)
        canary = []
        obsv = {"len": pv.length(), "p0": pv.arr.f(pv.lo), "p1": pv.arr.f(pv.lo + 1), "p2": pv.arr.f(pv.lo + 2)}
        for s, out in eng.exec_function(fi, st, {"self": selfv}, contract=self):
            if isinstance(out, RaiseExc):
                eng.oblige(f"{self.qualname}.exc.IndexError_only_if_too_short", s,
                           z3.And(too_short, z3.BoolVal(out.cls is IndexError)), kind="exc", site=fi.lineno,
                           observe=obsv, note=f"raises {out.cls.__name__}")
                continue
            canary.append(s)
            r = norm(out.v)
            exp4076 = SStr(["4076_", Fmt("03d", SInt(sub))])
            expplain = SStr([Fmt("d", SInt(mid))])
            try:
                g = z3.And(z3.Not(too_short),
                           z3.If(is4076, bool_term(ops.str_eq(s, r, exp4076)) if feasible(s.pc, is4076) else z3.BoolVal(True),
                                 bool_term(ops.str_eq(s, r, expplain)) if feasible(s.pc, z3.Not(is4076)) else z3.BoolVal(True)))
            except Exception as e:  # shape mismatch: the result is not the specified string
                g = z3.BoolVal(False)
            eng.oblige(f"{self.qualname}.post.is_decimal_message_number", s, g, site=fi.lineno, observe=obsv)
        return canary


def all_headers():
    """Every 12-bit message number, and every 8-bit sub-type of 4076, as 3 header bytes."""
    for mid in range(4096):
        if mid == 4076:
            continue
        yield bytes([mid >> 4, (mid & 0xF) << 4, 0])
    for sub in range(256):
        yield bytes([0xFE, 0xC0 | (sub >> 7), (sub & 0x7F) << 1])


def header_chunks(n=16):
    total = 4095 + 256
    step = (total + n - 1) // n
    return [(a, min(a + step, total)) for a in range(0, total, step)]


def payload_tables():
    g = extract.module("pyrtcm.rtcmtypes_get").RTCM_PAYLOADS_GET
    m = extract.module("pyrtcm.rtcmtypes_get_msm").RTCM_PAYLOADS_GET_MSM
    i = extract.module("pyrtcm.rtcmtypes_get_igs").RTCM_PAYLOADS_GET_IGS
    return g, m, i


@register
class GetDict(Contract):
    qualname = M + "._get_dict"

    # ensures result is ALL.get(identity) where ALL is the disjoint union of the three tables
    def lookup(self, ident):
        for t in payload_tables():
            if ident in t:
                return t[ident]
        return None

    def apply(self, eng, st, selfv, args, kwargs, site):
        outs = []
        for s, ident in eng.call_qual(M + ".identity", st, selfv, [], {}, site):
            if isinstance(ident, RaiseExc):
                outs.append((s, ident))
                continue
            ident = ops.concretise_str(s, ident) if not isinstance(ident, str) else ident
            if not isinstance(ident, str):
                from pyvc.values import EngineUnsupported
                raise EngineUnsupported("_get_dict on a message whose identity is not determined")
            outs.append((s, self.lookup(ident)))
        return outs

    def instances(self, tier):
        return header_chunks()

    def verify(self, eng, inst):
        fi = extract.func(self.qualname)
        canary = []
        for hdr in list(all_headers())[inst[0]:inst[1]]:
            st = State()
            tail = generic_payload(st, "tail")
            selfv = new_message(st, SBytes([hdr, tail]))
            ident = specid.ident(hdr)
            for s, out in eng.exec_function(fi, st, {"self": selfv}, contract=self):
                if isinstance(out, RaiseExc):
                    eng.oblige(f"{self.qualname}.raises_nothing[{ident}]", s, False, kind="exc", note=f"raises {out.cls.__name__}",
                               observe={"header": hdr.hex()})
                    continue
                if not canary:
                    canary.append(s)
                eng.oblige(f"{self.qualname}.post.dispatch[{ident}]", s, z3.BoolVal(out.v is self.lookup(ident)), site=fi.lineno,
                           observe={"header": hdr.hex()})
        return canary


@register
class IsMsm(Contract):
    qualname = M + ".ismsm"

    # ensures result == (identity is described as an MSM type); never raises
    def spec(self, ident):
        ids = extract.module("pyrtcm.rtcmtypes_core").RTCM_MSGIDS
        return ident in ids and "MSM" in ids[ident]

    def apply(self, eng, st, selfv, args, kwargs, site):
        outs = []
        for s, ident in eng.call_qual(M + ".identity", st, selfv, [], {}, site):
            if isinstance(ident, RaiseExc):
                outs.append((s, ident))
                continue
            ident = ops.concretise_str(s, ident) if not isinstance(ident, str) else ident
            if isinstance(ident, str):
                outs.append((s, self.spec(ident)))
            else:
                # identity not determined: result is an unconstrained function of the header
                outs.append((s, SBool(z3.Bool(f"ismsm_{id(s)}"))))
        return outs

    def instances(self, tier):
        return header_chunks()

    def verify(self, eng, inst):
        fi = extract.func(self.qualname)
        canary = []
        _, msm, _ = payload_tables()
        for hdr in list(all_headers())[inst[0]:inst[1]]:
            st = State()
            tail = generic_payload(st, "tail")
            selfv = new_message(st, SBytes([hdr, tail]), immutable=True)
            ident = specid.ident(hdr)
            for s, out in eng.exec_function(fi, st, {"self": selfv}, contract=self):
                if isinstance(out, RaiseExc):
                    eng.oblige(f"{self.qualname}.raises_nothing[{ident}]", s, False, kind="exc", note=f"raises {out.cls.__name__}",
                               observe={"header": hdr.hex()})
                    continue
                if not canary:
                    canary.append(s)
                r = norm(out.v)
                inblock = ident.isdigit() and 1070 <= int(ident) <= 1229
                ok = isinstance(r, bool) and r == self.spec(ident) and (not r or inblock) and (r or ident not in msm)
                eng.oblige(f"{self.qualname}.post[{ident}]", s, z3.BoolVal(ok), site=fi.lineno, observe={"header": hdr.hex()})
        return canary


@register
class SetAttr(Contract):
    qualname = M + ".__setattr__"

    # requires nothing; immutable => raises RTCMMessageError and writes nothing; else plain store
    def apply(self, eng, st, selfv, args, kwargs, site):
        name, value = args
        imm = st.obj(selfv).fields.get("_immutable", False)
        outs = []
        for s, b in eng.branch(st, ops.truth(st, imm)):
            if b:
                outs.append((s, RaiseExc(exc("RTCMMessageError"), "Object is immutable")))
            else:
                eng.raw_store(s, selfv, name, value)
                outs.append((s, None))
        return outs

    def instances(self, tier):
        return ["DF002", "DF406_07", "_payload", "_immutable", "brand_new", "payload", "identity", "ismsm",
                "DF002:any-value", "brand_new:any-value"]  # a finished message, value = an arbitrary caller-supplied object

    PROPERTY_NAMES = ("payload", "identity", "ismsm")  # class properties without a setter: object.__setattr__ itself refuses them

    def verify(self, eng, inst):
        fi = extract.func(self.qualname)
        st = State()
        pv = generic_payload(st)
        imm = z3.Bool("immutable")
        selfv = new_message(st, SBytes([pv]), immutable=SBool(imm))
        value = SInt(z3.Int("value"))
        tag = inst
        if inst.endswith(":any-value"):
            from pyvc.values import ExternalValue
            inst = inst.split(":")[0]
            st.assume(imm)
            value = ExternalValue("value")
        st.writes = set()
        canary = []
        for s, out in eng.exec_function(fi, st, {"self": selfv, "name": inst, "value": value}, contract=self):
            wr = {w for w in s.writes if w[0] == selfv.oid}
            if isinstance(out, RaiseExc):
                ok = z3.And(imm, z3.BoolVal(out.cls is exc("RTCMMessageError")))
                if inst in self.PROPERTY_NAMES:
                    # a finished (immutable) message refuses with the library's error like any other name; only while it is still
                    # being built does the plain store's own AttributeError show
                    ok = z3.Or(ok, z3.And(z3.Not(imm), z3.BoolVal(out.cls is AttributeError)))
                eng.oblige(f"{self.qualname}.exc.refuses_iff_immutable[{tag}]", s, ok, kind="exc", site=fi.lineno,
                           note=f"raises {out.cls.__name__}")
                if inst in self.PROPERTY_NAMES or tag.endswith(":any-value"):
                    canary.append(s)  # these names have no normal return at all: reachability is shown on the refusing paths
                eng.oblige(f"{self.qualname}.exc.nothing_written[{tag}]", s, z3.BoolVal(not wr), kind="frame", site=fi.lineno,
                           note=f"writes {sorted(map(str, wr))}")
                continue
            canary.append(s)
            obj = s.obj(selfv)
            base, idx = eng.parse_attr_name(s, inst) if not inst.startswith("_") else (inst, [])
            key = inst if inst.startswith("_") else (base, len(idx))
            eng.oblige(f"{self.qualname}.post.stores_when_mutable[{tag}]", s,
                       z3.And(z3.Not(imm), z3.BoolVal(wr == {(selfv.oid, key)})), site=fi.lineno, note=f"writes {sorted(map(str, wr))}")
        return canary


@register
class DoUnknown(Contract):
    qualname = M + "._do_unknown"

    # requires has_header; ensures attrs == {DF002: identity}, _unknown == True; raises nothing
    def apply(self, eng, st, selfv, args, kwargs, site):
        outs = []
        for s, ident in eng.call_qual(M + ".identity", st, selfv, [], {}, site):
            if isinstance(ident, RaiseExc):
                outs.append((s, ident))
                continue
            for s2, r in eng.set_attr(s, selfv, "DF002", ident):
                if isinstance(r, RaiseExc):
                    outs.append((s2, r))
                    continue
                for s3, r3 in eng.set_attr(s2, selfv, "_unknown", True):
                    outs.append((s3, r3 if isinstance(r3, RaiseExc) else None))
        return outs

    def verify(self, eng, inst):
        fi = extract.func(self.qualname)
        st = State()
        pv = generic_payload(st)
        payload = SBytes([pv])
        st.assume(has_header(st, payload))
        selfv = new_message(st, payload)
        st.writes = set()
        canary = []
        for s, out in eng.exec_function(fi, st, {"self": selfv}, contract=self):
            if isinstance(out, RaiseExc):
                eng.oblige(f"{self.qualname}.raises_nothing", s, False, kind="exc", note=f"raises {out.cls.__name__}")
                continue
            canary.append(s)
            obj = s.obj(selfv)
            wr = {w[1] for w in s.writes if w[0] == selfv.oid}
            ok_frame = wr == {("DF002", 0), "_unknown"}
            eng.oblige(f"{self.qualname}.post.frame_DF002_and_unknown_only", s, z3.BoolVal(ok_frame), kind="frame", note=str(sorted(map(str, wr))))
            ent = obj.attrs.get(("DF002", 0))
            # value is the identity string
            good = False
            if ent is not None and ent.dom is True:
                for s2, ident in eng.call_qual(M + ".identity", s.fork(), selfv, [], {}, None):
                    try:
                        good = ops.str_eq(s2, ent.val, ident)
                    except Exception:  # noqa
                        good = False
                    eng.oblige(f"{self.qualname}.post.DF002_is_identity", s2, bool_term(good) if not isinstance(good, bool) else z3.BoolVal(good))
            else:
                eng.oblige(f"{self.qualname}.post.DF002_is_identity", s, False)
            eng.oblige(f"{self.qualname}.post.unknown_flag", s, z3.BoolVal(obj.fields.get("_unknown") is True))
        return canary


@register
class Payload(Contract):
    qualname = M + ".payload"

    def apply(self, eng, st, selfv, args, kwargs, site):
        return [(st, payload_of(st, selfv))]

    def verify(self, eng, inst):
        fi = extract.func(self.qualname)
        st = State()
        pv = generic_payload(st)
        payload = SBytes([pv])
        selfv = new_message(st, payload)
        st.writes = set()
        canary = []
        for s, out in eng.exec_function(fi, st, {"self": selfv}, contract=self):
            if isinstance(out, RaiseExc):
                eng.oblige(f"{self.qualname}.raises_nothing", s, False, kind="exc")
                continue
            canary.append(s)
            eng.oblige(f"{self.qualname}.post.returns_stored_bytes_object", s, z3.BoolVal(out.v is payload))
            eng.oblige(f"{self.qualname}.frame.writes_nothing", s, z3.BoolVal(not s.writes), kind="frame")
        return canary


@register
class Serialize(Contract):
    qualname = M + ".serialize"

    # ensures result == D3 ++ be16(n) ++ payload ++ be24(CRC(D3 ++ be16(n) ++ payload))
    def expected(self, st, payload):
        from spec import crc as sc
        n = bytes_len(as_sbytes(payload))
        head = SBytes([b"\xd3", Items([SInt(n / 256), SInt(n % 256)])] + list(as_sbytes(payload).segs))
        c = sc.crc_of_value(st, head)
        bits = to_bits(st, c)
        bits = bits + [False] * (24 - len(bits))
        trailer = Items([norm(SBits(bits[16:24])), norm(SBits(bits[8:16])), norm(SBits(bits[0:8]))])
        return SBytes(list(head.segs) + [trailer]), n

    def apply(self, eng, st, selfv, args, kwargs, site):
        payload = payload_of(st, selfv)
        exp, n = self.expected(st, payload)
        outs = []
        for s, b in eng.branch(st, n < 65536):
            outs.append((s, exp) if b else (s, RaiseExc(OverflowError, "int too big to convert")))
        return outs

    def verify(self, eng, inst):
        fi = extract.func(self.qualname)
        st = State()
        pv = generic_payload(st)
        payload = SBytes([pv])
        selfv = new_message(st, payload, immutable=True)
        st.writes = set()
        canary = []
        n = pv.length()
        for s, out in eng.exec_function(fi, st, {"self": selfv}, contract=self):
            if isinstance(out, RaiseExc):
                eng.oblige(f"{self.qualname}.exc.only_overflow_when_len_ge_65536", s,
                           z3.And(n >= 65536, z3.BoolVal(out.cls is OverflowError)), kind="exc")
                continue
            canary.append(s)
            exp, _ = self.expected(s, payload)
            eng.oblige(f"{self.qualname}.post.canonical_frame", s, bool_term(ops.bytes_eq(s, out.v, exp)), site=fi.lineno,
                       observe={"len": n})
            # top six bits of the length are zero for payloads up to 1023 bytes
            b1 = as_sbytes(out.v)
            from pyvc.pybuiltin import bytes_item
            it = bytes_item(s, b1, 1)
            eng.oblige(f"{self.qualname}.post.six_zero_bits_when_len_le_1023", s,
                       z3.Implies(n <= 1023, int_term(it) < 4))
            eng.oblige(f"{self.qualname}.frame.writes_nothing", s, z3.BoolVal(not s.writes), kind="frame")
        return canary


@register
class Repr(Contract):
    qualname = M + ".__repr__"

    def apply(self, eng, st, selfv, args, kwargs, site):
        return [(st, SStr(["RTCMMessage(payload=", ReprSeg(payload_of(st, selfv)), ")"]))]

    def verify(self, eng, inst):
        fi = extract.func(self.qualname)
        st = State()
        pv = generic_payload(st)
        payload = SBytes([pv])
        selfv = new_message(st, payload, immutable=True)
        st.writes = set()
        canary = []
        for s, out in eng.exec_function(fi, st, {"self": selfv}, contract=self):
            if isinstance(out, RaiseExc):
                eng.oblige(f"{self.qualname}.raises_nothing", s, False, kind="exc")
                continue
            canary.append(s)
            r = out.v
            ok = (isinstance(r, SStr) and len(r.segs) == 3 and r.segs[0] == "RTCMMessage(payload=" and r.segs[2] == ")"
                  and isinstance(r.segs[1], ReprSeg) and r.segs[1].v is payload)
            eng.oblige(f"{self.qualname}.post.constructor_call_text_with_payload_literal", s, z3.BoolVal(ok), note=repr(r))
            eng.oblige(f"{self.qualname}.frame.writes_nothing", s, z3.BoolVal(not s.writes), kind="frame")
        return canary
