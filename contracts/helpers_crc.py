"""Contracts: pyrtcm.rtcmhelpers.calc_crc24q / crc2bytes / len2bytes  (DESIGN C07, C08)."""
import z3

from pyvc import extract, ops
from pyvc.values import bool_term
from pyvc.contract import Contract, register
from pyvc.ops import bytes_len, norm
from pyvc.state import State, to_bits
from pyvc.symex import LoopSpec, Return
from pyvc.values import (
    ByteArr, Items, RaiseExc, SBits, SBytes, SInt, View, as_sbytes, bits_to_int, int_term,
)
from spec import crc as speccrc

H = "pyrtcm.rtcmhelpers."


def generic_view(st, name="m"):
    """A bytes parameter in full generality: arr[lo:hi], 0 <= lo <= hi."""
    arr = ByteArr.get(name)
    lo, hi = z3.Int(f"{name}_lo"), z3.Int(f"{name}_hi")
    st.assume(lo >= 0, hi >= lo)
    return View(arr, lo, hi)


@register
class CalcCrc(Contract):
    qualname = H + "calc_crc24q"

    # ensures result == CRC(message); 0 <= result < 2^24; raises nothing
    def post(self, st, message, result):
        spec = speccrc.crc_of_value(st, message)
        return [("result_is_CRC", bool_term(ops.int_eq(st, result, spec))),
                ("range", z3.And(int_term(result) >= 0, int_term(result) < (1 << 24)))]

    def apply(self, eng, st, selfv, args, kwargs, site):
        message = args[0] if args else kwargs["message"]
        spec = speccrc.crc_of_value(st, message)
        return [(st, norm(spec))]

    @staticmethod
    def accumulator_name():
        """The CRC register is whatever local the function returns (masked): robust against renaming."""
        import ast
        fi = extract.func(H + "calc_crc24q")
        for n in ast.walk(fi.node):
            if isinstance(n, ast.Return) and n.value is not None:
                names = [x.id for x in ast.walk(n.value) if isinstance(x, ast.Name)]
                if names:
                    return names[0]
        return "crc"

    def inv(self, eng, st, k):
        v = self._view
        crc = st.env[self.accumulator_name()]
        ks = z3.simplify(k)
        if z3.is_int_value(ks) and ks.as_long() == 0:
            st.assume(speccrc.crcx_base(st, v.arr, z3.IntVal(0), v.lo))
        t = speccrc.crcx(st, v.arr, z3.IntVal(0), v.lo, v.lo + k)
        return [("crc_is_prefix_CRC", bool_term(ops.int_eq(st, crc, SInt(t)))),
                ("crc_lt_2p24", z3.And(int_term(crc) >= 0, int_term(crc) < (1 << 24)))]

    def crc_at(self, eng, st, k):
        # havoc + invariant in one step: at the head of iteration k the register *is* the
        # prefix CRC (substitution of the invariant's equality)
        v = self._view
        return SInt(speccrc.crcx(st, v.arr, z3.IntVal(0), v.lo, v.lo + k))

    def facts(self, eng, st, k):
        v = self._view
        return [speccrc.crcx_unfold(st, v.arr, z3.IntVal(0), v.lo, v.lo + k)]

    @property
    def loops(self):
        return {0: LoopSpec(invariant=self.inv, kinds={self.accumulator_name(): self.crc_at}, facts=self.facts),
                1: LoopSpec(unroll=True)}

    def verify(self, eng, inst):
        fi = extract.func(self.qualname)
        st = State()
        v = generic_view(st)
        self._view = v
        msg = SBytes([v])
        canary = []
        for s, out in eng.exec_function(fi, st, {fi.params[0]: msg}, contract=self):
            if isinstance(out, RaiseExc):
                eng.oblige(f"{self.qualname}.raises_nothing", s, False, kind="exc", site=fi.lineno,
                           note=f"raises {out.cls.__name__}")
                continue
            canary.append(s)
            for nm, g in self.post(s, msg, out.v):
                eng.oblige(f"{self.qualname}.post.{nm}", s, g, site=fi.lineno,
                           observe={"lo": v.lo, "hi": v.hi})
        return canary


@register
class Crc2Bytes(Contract):
    qualname = H + "crc2bytes"

    def expected(self, st, message):
        c = speccrc.crc_of_value(st, message)
        bits = to_bits(st, c)
        bits = bits + [False] * (24 - len(bits))
        return [norm(SBits(bits[16:24])), norm(SBits(bits[8:16])), norm(SBits(bits[0:8]))]

    def apply(self, eng, st, selfv, args, kwargs, site):
        message = args[0] if args else kwargs["message"]
        return [(st, norm(SBytes([Items(self.expected(st, message))])))]

    def verify(self, eng, inst):
        from pyvc import ops
        fi = extract.func(self.qualname)
        st = State()
        v = generic_view(st)
        msg = SBytes([v])
        canary = []
        for s, out in eng.exec_function(fi, st, {fi.params[0]: msg}, contract=self):
            if isinstance(out, RaiseExc):
                eng.oblige(f"{self.qualname}.raises_nothing", s, False, kind="exc", note=f"raises {out.cls.__name__}")
                continue
            canary.append(s)
            exp = SBytes([Items(self.expected(s, msg))])
            eng.oblige(f"{self.qualname}.post.be24_of_CRC", s, ops.bytes_eq(s, out.v, exp), site=fi.lineno)
        return canary


@register
class Len2Bytes(Contract):
    qualname = H + "len2bytes"

    # ensures result == be16(len(payload)); raises OverflowError iff len >= 65536
    def apply(self, eng, st, selfv, args, kwargs, site):
        payload = args[0] if args else kwargs["payload"]
        n = bytes_len(as_sbytes(payload))
        fits = n < 65536
        outs = []
        s_ok = st.fork()
        s_ok.assume(fits)
        outs.append((s_ok, SBytes([Items([SInt(n / 256), SInt(n % 256)])])))
        s_bad = st
        s_bad.assume(z3.Not(fits))
        from pyvc.state import feasible
        if feasible(s_bad.pc):
            outs.append((s_bad, RaiseExc(OverflowError, "int too big to convert")))
        return outs

    def verify(self, eng, inst):
        from pyvc import ops
        fi = extract.func(self.qualname)
        st = State()
        v = generic_view(st)
        msg = SBytes([v])
        n = v.length()
        canary = []
        for s, out in eng.exec_function(fi, st, {fi.params[0]: msg}, contract=self):
            if isinstance(out, RaiseExc):
                eng.oblige(f"{self.qualname}.exc.overflow_only_if_ge_65536", s,
                           z3.And(n >= 65536, z3.BoolVal(out.cls is OverflowError)), kind="exc")
                continue
            canary.append(s)
            exp = SBytes([Items([SInt(n / 256), SInt(n % 256)])])
            eng.oblige(f"{self.qualname}.post.be16_of_len", s, z3.And(n < 65536, ops.bytes_eq(s, out.v, exp)), site=fi.lineno)
        return canary
