"""Contracts: pyrtcm.rtcmreader.RTCMReader and the byte-stream ghost state (DESIGN 3.1,
C01, C02, C04, C05, C17)."""
import z3

from pyvc import extract, ops
from pyvc.contract import Contract, register
from pyvc.ops import bytes_len, norm
from pyvc.state import State, byte_at, feasible
from pyvc.symex import ExternalCallable, LoopSpec, Return
from pyvc.values import (
    ByteArr, ExcValue, HObject, RaiseExc, Ref, SBool, SBytes, SInt, View, as_sbytes, bool_term, int_term,
)
from contracts.message import M, exc
from spec import crc as sc

R = "pyrtcm.rtcmreader.RTCMReader"
LIB = ("RTCMMessageError", "RTCMParseError", "RTCMStreamError", "RTCMTypeError")


def lib_classes():
    return tuple(exc(n) for n in LIB)


# ---------------------------------------------------------------------------------------
# ghost stream
# ---------------------------------------------------------------------------------------
NEXTLF = z3.Function("NextLF_src", z3.IntSort(), z3.IntSort())


def nextlf_fun(arr):
    return NEXTLF if arr.name == "src" else z3.Function(f"NextLF_{arr.name}", z3.IntSort(), z3.IntSort())


def new_stream(st, faultfree=False, name="src", bytearray_results=False):
    o = HObject("ext.Stream")
    arr = ByteArr.get(name)
    end = z3.Int(f"{name}_len")
    pos = z3.Int(f"{name}_pos0")
    st.assume(pos >= 0, end >= pos)
    o.fields.update({"arr": arr, "pos": pos, "end": end, "faultfree": faultfree, "last_empty": False, "reads": 0,
                     "bytearray": bytearray_results})  # a duck-typed stream may hand out bytearray objects instead of bytes
    o.pycls = object  # any file-like object that is not a socket
    return st.alloc(o)


def spos(st, stream):
    return st.obj(stream).fields["pos"]


def nextlf_facts(st, stream, p):
    """Definitional instance for NextLF at p: the first 0x0A at or after p (or end)."""
    f = st.obj(stream).fields
    n = nextlf_fun(f["arr"])(p)
    # first 0x0A at or after p: if there is one before `end` it is NextLF; a stream shorter than NextLF has none
    st.assume(z3.And(n >= p, z3.Implies(n < f["end"], byte_at(st, f["arr"], n) == 0x0A)))
    return n


@register
class StreamRead(Contract):
    qualname = "ext.Stream.read"
    trusted = ("stream.read(n), n>=0: returns d = src[pos:pos+|d|], 0<=|d|<=n, never rewinds, never invents bytes; "
               "fault-free variant: |d| = min(n, |src|-pos)")

    def apply(self, eng, st, selfv, args, kwargs, site):
        n = int_term(args[0])
        f = st.obj(selfv).fields
        eng.oblige("ext.Stream.read.pre.size_nonnegative", st, n >= 0, kind="pre", site=site)
        pos, end, arr = f["pos"], f["end"], f["arr"]
        if f["faultfree"]:
            d = z3.If(n <= end - pos, n, end - pos)
        else:
            d = z3.Int(f"rd{f['reads']}_{st.next_oid[0]}")
            st.next_oid[0] += 1
            st.assume(d >= 0, d <= n, pos + d <= end)
        d = z3.simplify(d)
        newpos = z3.simplify(pos + d)
        f["pos"] = newpos
        f["reads"] = f["reads"] + 1
        f["last_empty"] = SBool(d == 0)
        st.writes.add((selfv.oid, "pos"))
        return [(st, SBytes([View(arr, pos, newpos)], mutable=bool(f.get("bytearray"))))]


@register
class StreamReadline(Contract):
    qualname = "ext.Stream.readline"
    trusted = ("stream.readline(): returns d = src[pos:pos+|d|] that either ends at the first 0x0A at or after pos or "
               "contains no 0x0A; fault-free variant: through the first 0x0A, else the rest")

    def apply(self, eng, st, selfv, args, kwargs, site):
        f = st.obj(selfv).fields
        pos, end, arr = f["pos"], f["end"], f["arr"]
        nl = nextlf_facts(st, selfv, pos)
        if f["faultfree"]:
            d = z3.If(nl < end, nl + 1 - pos, end - pos)
            st.assume(end >= pos)
        else:
            d = z3.Int(f"rl{f['reads']}_{st.next_oid[0]}")
            st.next_oid[0] += 1
            st.assume(d >= 0, pos + d <= end, z3.Or(pos + d <= nl, z3.And(nl < end, pos + d == nl + 1)))
        d = z3.simplify(d)
        newpos = z3.simplify(pos + d)
        # NextLF is the *first* 0x0A: instance of "no 0x0A before it" at the last byte returned
        st.assume(z3.Implies(z3.And(d > 0, newpos - 1 < nl), byte_at(st, arr, newpos - 1) != 0x0A))
        f["pos"] = newpos
        f["reads"] = f["reads"] + 1
        f["last_empty"] = SBool(d == 0)
        st.writes.add((selfv.oid, "pos"))
        return [(st, SBytes([View(arr, pos, newpos)], mutable=bool(f.get("bytearray"))))]


@register
class StreamTell(Contract):
    qualname = "ext.Stream.tell"
    trusted = "stream.tell() (if the stream has one): returns an int or raises OSError (io.UnsupportedOperation on pipes, sockets' makefile())"

    def apply(self, eng, st, selfv, args, kwargs, site):
        s2 = st.fork()
        return [(st, SInt(st.obj(selfv).fields["pos"])), (s2, RaiseExc(OSError, "underlying stream is not seekable"))]


@register
class StreamSeekable(Contract):
    qualname = "ext.Stream.seekable"
    trusted = "stream.seekable(): some bool"

    def apply(self, eng, st, selfv, args, kwargs, site):
        from pyvc.values import fresh_name
        return [(st, SBool(z3.Bool(fresh_name("seekable"))))]


@register
class StreamSeek(Contract):
    qualname = "ext.Stream.seek"
    trusted = "stream.seek(): moves the cursor anywhere in 0..len or raises OSError; the reader's contracts (consumed bytes are never re-read) hold only if it is not used"

    def apply(self, eng, st, selfv, args, kwargs, site):
        from pyvc.values import fresh_name
        s2 = st.fork()
        f = st.obj(selfv).fields
        newpos = z3.Int(fresh_name("pos_after_seek"))
        st.assume(newpos >= 0, newpos <= f["end"])
        f["pos"] = newpos
        st.writes.add((selfv.oid, "pos"))
        return [(st, SInt(newpos)), (s2, RaiseExc(OSError, "underlying stream is not seekable"))]


@register
class ErrorHandler(Contract):
    qualname = "ext.errorhandler"
    trusted = "user errorhandler(err): returns (any value), does not raise, does not touch the reader or the stream"

    def apply(self, eng, st, selfv, args, kwargs, site):
        st.ghost["hcalls"] = SInt(z3.simplify(int_term(st.ghost.get("hcalls", 0)) + 1))
        # what the handler returns is its own business (None, a count, the error, True ...): the reader must not act on it
        from pyvc.values import STruthy, fresh_name
        return [(st, STruthy(z3.Bool(fresh_name("handler_result_truthy"))))]


def new_reader(st, stream, quitonerror=None, handler=False, name="r"):
    o = HObject(R)
    o.pycls = extract.module("pyrtcm.rtcmreader").RTCMReader
    q = quitonerror if quitonerror is not None else SInt(z3.Int(f"{name}_quitonerror"))
    o.fields.update({
        "_stream": stream, "_quitonerror": q,
        "_errorhandler": ExternalCallable("ext.errorhandler") if handler else None,
        "_validate": SInt(z3.Int(f"{name}_validate")), "_labelmsm": SInt(z3.Int(f"{name}_labelmsm")),
        "_parsed": SBool(z3.Bool(f"{name}_parsed")),
    })
    st.ghost.setdefault("hcalls", 0)
    return st.alloc(o)


def stream_of(st, selfv):
    return st.obj(selfv).fields["_stream"]


def view_of(v):
    b = as_sbytes(v)
    if len(b.segs) == 1 and isinstance(b.segs[0], View):
        return b.segs[0]
    return None


def is_slice(v, arr, lo, hi):
    """Bool term: bytes value v is exactly arr[lo:hi] (as a view)."""
    b = as_sbytes(v)
    if len(b.segs) == 0:
        return lo == hi
    if not all(isinstance(x, View) and x.arr is arr for x in b.segs):
        return z3.BoolVal(False)
    conds = [b.segs[0].lo == lo, b.segs[-1].hi == hi]
    for x, y in zip(b.segs, b.segs[1:]):
        conds.append(x.hi == y.lo)  # adjacent slices
    return z3.And(*conds)


def immutable_bytes(v):
    """Bool term: v is a bytes object, not a bytearray (C14: a message's payload and the raw frame cannot be changed in place)."""
    v = norm(v) if not isinstance(v, bytes) else v
    return z3.BoolVal(isinstance(v, bytes) or (isinstance(v, SBytes) and not v.mutable))


# ---------------------------------------------------------------------------------------
@register
class ReadBytes(Contract):
    qualname = R + "._read_bytes"

    # requires size >= 0
    # normal          => result = src[p0:p0+size], pos' = p0+size
    # raises EOFError => size > 0, the stream returned nothing, pos' = p0          (C02: end of data is
    #                    signalled only by an empty read for a non-empty request)
    # raises RTCMStreamError => p0 < pos' < p0+size (short read)
    def apply(self, eng, st, selfv, args, kwargs, site):
        size = args[0]
        n = int_term(size)
        stream = stream_of(st, selfv)
        eng.oblige(f"{self.qualname}.pre.size_nonnegative", st, n >= 0, kind="pre", site=site)
        outs = []
        for s, data in eng.call_qual("ext.Stream.read", st, stream, [size], {}, site):
            d = bytes_len(data)
            for s1, b in eng.branch(s, z3.And(d == 0, n > 0)):
                if b:
                    outs.append((s1, RaiseExc(EOFError, "")))
                    continue
                for s2, b2 in eng.branch(s1, z3.And(d > 0, d < n)):
                    outs.append((s2, RaiseExc(exc("RTCMStreamError"), "short read")) if b2 else (s2, data))
        return outs

    def verify(self, eng, inst):
        fi = extract.func(self.qualname)
        st = State()
        stream = new_stream(st)
        selfv = new_reader(st, stream)
        size = z3.Int("size")
        st.assume(size >= 0)
        f0 = st.obj(stream).fields
        p0, arr = f0["pos"], f0["arr"]
        canary = []
        for s, out in eng.exec_function(fi, st, {"self": selfv, "size": SInt(size)}, contract=self):
            pos = spos(s, stream)
            obs = {"size": size, "got": pos - p0}
            if isinstance(out, RaiseExc):
                if out.cls is EOFError:
                    g = z3.And(size > 0, pos == p0)
                elif out.cls is exc("RTCMStreamError"):
                    g = z3.And(pos > p0, pos < p0 + size)
                else:
                    g = z3.BoolVal(False)
                eng.oblige(f"{self.qualname}.exc.{out.cls.__name__}", s, g, kind="exc", site=fi.lineno, observe=obs,
                           note=f"raises {out.cls.__name__}")
                continue
            canary.append(s)
            eng.oblige(f"{self.qualname}.post.exactly_size_bytes_from_stream", s,
                       z3.And(is_slice(out.v, arr, p0, p0 + size), pos == p0 + size), site=fi.lineno, observe=obs)
            eng.oblige(f"{self.qualname}.post.result_is_immutable_bytes", s, immutable_bytes(out.v), site=fi.lineno)
        return canary


@register
class ReadLine(Contract):
    qualname = R + "._read_line"

    # normal => result = src[p0:pos'], ends with the first 0x0A at or after p0
    # EOFError => nothing read;  RTCMStreamError => non-empty, no 0x0A in it
    def apply(self, eng, st, selfv, args, kwargs, site):
        stream = stream_of(st, selfv)
        f = st.obj(stream).fields
        p0 = f["pos"]
        outs = []
        for s, data in eng.call_qual("ext.Stream.readline", st, stream, [], {}, site):
            pos = spos(s, stream)
            nl = NEXTLF(p0)
            for s1, b in eng.branch(s, pos == p0):
                if b:
                    outs.append((s1, RaiseExc(EOFError, "")))
                    continue
                for s2, b2 in eng.branch(s1, z3.And(nl < s1.obj(stream).fields["end"], pos == nl + 1)):
                    outs.append((s2, data) if b2 else (s2, RaiseExc(exc("RTCMStreamError"), "line not terminated")))
        return outs

    def verify(self, eng, inst):
        fi = extract.func(self.qualname)
        st = State()
        stream = new_stream(st)
        selfv = new_reader(st, stream)
        f0 = st.obj(stream).fields
        p0, arr, end = f0["pos"], f0["arr"], f0["end"]
        canary = []
        for s, out in eng.exec_function(fi, st, {"self": selfv}, contract=self):
            pos = spos(s, stream)
            nl = NEXTLF(p0)
            if isinstance(out, RaiseExc):
                if out.cls is EOFError:
                    g = pos == p0
                elif out.cls is exc("RTCMStreamError"):
                    g = z3.And(pos > p0, pos <= nl)
                else:
                    g = z3.BoolVal(False)
                eng.oblige(f"{self.qualname}.exc.{out.cls.__name__}", s, g, kind="exc", site=fi.lineno, note=f"raises {out.cls.__name__}")
                continue
            canary.append(s)
            eng.oblige(f"{self.qualname}.post.line_through_first_LF", s,
                       z3.And(is_slice(out.v, arr, p0, pos), nl < end, pos == nl + 1), site=fi.lineno)
        return canary


# ---------------------------------------------------------------------------------------
def crc_zero(st, v):
    return int_term(sc.crc_of_value(st, v)) == 0


@register
class Parse(Contract):
    qualname = R + ".parse"

    # validate & 1 and CRC(message) != 0  =>  raises RTCMParseError
    # otherwise the result (or exception) is that of RTCMMessage(message[3:-3], labelmsm)
    def pieces(self, st, message, validate):
        from pyvc.pybuiltin import bytes_slice
        v = int_term(validate) % 2 == 1
        bad = z3.And(v, z3.Not(crc_zero(st, message)))
        payload = bytes_slice(st, as_sbytes(message), 3, -3)
        return v, bad, payload

    def apply(self, eng, st, selfv, args, kwargs, site):
        message = args[0] if args else kwargs["message"]
        validate = args[1] if len(args) > 1 else kwargs.get("validate", 1)
        labelmsm = args[2] if len(args) > 2 else kwargs.get("labelmsm", 1)
        v, bad, payload = self.pieces(st, message, validate)
        outs = []
        for s, b in eng.branch(st, bad):
            if b:
                outs.append((s, RaiseExc(exc("RTCMParseError"), "failed CRC")))
            else:
                outs += eng.call_qual(M + ".__init__", s, None, [payload, labelmsm], {}, site)
        return outs

    def verify(self, eng, inst):
        from contracts.helpers_crc import generic_view
        fi = extract.func(self.qualname)
        st = State()
        mv = generic_view(st, "msg")
        message = SBytes([mv])
        validate, labelmsm = SInt(z3.Int("validate")), SInt(z3.Int("labelmsm"))
        v, bad, payload = self.pieces(st, message, validate)
        canary = []
        obs = {"len": mv.length(), "validate": validate.t}
        libs3 = (exc("RTCMParseError"), exc("RTCMMessageError"), exc("RTCMTypeError"))
        for s, out in eng.exec_function(fi, st, {"message": message, "validate": validate, "labelmsm": labelmsm}, contract=self):
            if isinstance(out, RaiseExc):
                eng.oblige(f"{self.qualname}.exc.only_library_errors", s, z3.BoolVal(out.cls in libs3), kind="exc", site=fi.lineno,
                           note=f"raises {out.cls.__name__}", observe=obs)
                if out.cls is exc("RTCMParseError"):
                    eng.oblige(f"{self.qualname}.exc.parse_error_only_for_bad_crc_when_validating", s, bad, kind="exc", site=fi.lineno, observe=obs)
                else:
                    # C05 / C08: a frame whose checksum fails is rejected *with a parse error*, whatever its payload would decode to
                    eng.oblige(f"{self.qualname}.exc.bad_crc_when_validating_raises_parse_error", s, z3.Not(bad), kind="exc", site=fi.lineno,
                               note=f"raises {out.cls.__name__}", observe=obs)
                continue
            canary.append(s)
            eng.oblige(f"{self.qualname}.post.crc_checked_when_validating", s, z3.Not(bad), site=fi.lineno, observe=obs)
            r = out.v
            ok = isinstance(r, Ref) and isinstance(s.obj(r), HObject) and s.obj(r).cls == M
            if not ok:
                eng.oblige(f"{self.qualname}.post.returns_message", s, False, note=repr(r))
                continue
            f = s.obj(r).fields
            eng.oblige(f"{self.qualname}.post.payload_is_message_3_to_minus3", s, bool_term(ops.bytes_identical(s, f["_payload"], payload)),
                       site=fi.lineno, observe=obs)
            eng.oblige(f"{self.qualname}.post.payload_is_immutable_bytes", s, immutable_bytes(f["_payload"]), site=fi.lineno)
            eng.oblige(f"{self.qualname}.post.labelmsm_passed_through", s, z3.BoolVal(f["_labelmsm"] is labelmsm), site=fi.lineno)
        return canary


@register
class ParseRtcm3(Contract):
    qualname = R + "._parse_rtcm3"

    # requires hdr = src[p0-2:p0], hdr[0] = 0xD3, hdr[1] & 0xFC = 0
    # let size = hdr[1]*256 + src[p0]
    # three reads succeed => raw = src[p0-2 : p0+4+size], pos' = p0+4+size BEFORE any validation (C05),
    #     parsed => result/exception of parse(raw, validate, labelmsm);  not parsed => (raw, None), parse not called
    # a read fails => EOFError / RTCMStreamError with p0 <= pos'
    def apply(self, eng, st, selfv, args, kwargs, site):
        hdr = args[0]
        f = st.obj(selfv).fields
        stream = f["_stream"]
        hv = view_of(hdr)
        arr = st.obj(stream).fields["arr"]
        p0 = spos(st, stream)
        eng.oblige(f"{self.qualname}.pre.hdr_is_last_two_bytes_read", st, is_slice(hdr, arr, p0 - 2, p0), kind="pre", site=site)
        h0, h1 = byte_at(st, arr, p0 - 2), byte_at(st, arr, p0 - 1)
        eng.oblige(f"{self.qualname}.pre.preamble_and_six_zero_bits", st, z3.And(h0 == 0xD3, h1 < 4), kind="pre", site=site)
        RB = R + "._read_bytes"
        outs = []
        for s1, hdr3 in eng.call_qual(RB, st, selfv, [1], {}, site):
            if isinstance(hdr3, RaiseExc):
                outs.append((s1, hdr3))
                continue
            size = z3.simplify(h1 * 256 + byte_at(s1, arr, p0))
            for s2, pl in eng.call_qual(RB, s1, selfv, [SInt(size)], {}, site):
                if isinstance(pl, RaiseExc):
                    outs.append((s2, pl))
                    continue
                for s3, crc in eng.call_qual(RB, s2, selfv, [3], {}, site):
                    if isinstance(crc, RaiseExc):
                        outs.append((s3, crc))
                        continue
                    raw = SBytes([View(arr, p0 - 2, z3.simplify(p0 + 4 + size))])
                    fld = s3.obj(selfv).fields
                    for s4, b in eng.branch(s3, ops.truth(s3, fld["_parsed"])):
                        if not b:
                            outs.append((s4, (raw, None)))
                            continue
                        for s5, msg in eng.call_qual(R + ".parse", s4, None, [raw], {"validate": fld["_validate"], "labelmsm": fld["_labelmsm"]}, site):
                            outs.append((s5, msg if isinstance(msg, RaiseExc) else (raw, msg)))
        return outs

    def verify(self, eng, inst):
        fi = extract.func(self.qualname)
        st = State()
        stream = new_stream(st)
        selfv = new_reader(st, stream)
        f0 = st.obj(stream).fields
        p0, arr, end = f0["pos"], f0["arr"], f0["end"]
        st.assume(p0 >= 2)
        hdr = SBytes([View(arr, p0 - 2, p0)])
        h0, h1 = byte_at(st, arr, p0 - 2), byte_at(st, arr, p0 - 1)
        st.assume(h0 == 0xD3, h1 < 4)
        size = h1 * 256 + byte_at(st, arr, p0)
        fld = st.obj(selfv).fields
        parsed = bool_term(fld["_parsed"])
        canary = []
        libs = lib_classes()
        for s, out in eng.exec_function(fi, st, {"self": selfv, "hdr": hdr}, contract=self):
            pos = spos(s, stream)
            obs = {"size": size, "consumed": pos - p0, "parsed": parsed}
            if isinstance(out, RaiseExc):
                if out.cls in (EOFError, exc("RTCMStreamError")) and out.tag is None:
                    eng.oblige(f"{self.qualname}.exc.stream_errors_leave_pos_monotone", s, z3.And(pos >= p0, pos <= end), kind="exc",
                               site=fi.lineno, observe=obs, note=f"raises {out.cls.__name__}")
                elif out.cls in libs:
                    eng.oblige(f"{self.qualname}.exc.frame_fully_consumed_before_validation", s,
                               z3.And(pos == p0 + 4 + size, parsed), kind="exc", site=fi.lineno, observe=obs, note=f"raises {out.cls.__name__}")
                    # ... and only for the reason parse() has: bad CRC while validating, or a payload that does not construct
                    from contracts.message import has_header
                    from contracts.message_glue import parses_ok
                    rawv = SBytes([View(arr, p0 - 2, p0 + 4 + size)])
                    pl = SBytes([View(arr, p0 + 1, p0 + 1 + size)])
                    vbit = int_term(fld["_validate"]) % 2 == 1
                    if out.cls is exc("RTCMParseError"):
                        why = z3.And(vbit, z3.Not(crc_zero(s, rawv)))
                    else:
                        why = z3.Not(z3.And(has_header(s, pl), parses_ok(s, pl, fld["_labelmsm"])))
                    eng.oblige(f"{self.qualname}.exc.error_only_for_parse_s_own_reason", s, why, kind="exc", site=fi.lineno, observe=obs,
                               note=f"raises {out.cls.__name__}")
                else:
                    eng.oblige(f"{self.qualname}.exc.only_library_or_stream_errors", s, False, kind="exc", site=fi.lineno,
                               observe=obs, note=f"raises {out.cls.__name__}")
                continue
            canary.append(s)
            r = out.v
            if not (isinstance(r, tuple) and len(r) == 2):
                eng.oblige(f"{self.qualname}.post.returns_pair", s, False, note=repr(r))
                continue
            raw, msg = r
            eng.oblige(f"{self.qualname}.post.raw_is_whole_frame_slice", s,
                       z3.And(is_slice(raw, arr, p0 - 2, p0 + 4 + size), pos == p0 + 4 + size), site=fi.lineno, observe=obs)
            eng.oblige(f"{self.qualname}.post.raw_is_immutable_bytes", s, immutable_bytes(raw), site=fi.lineno)
            if msg is None:
                eng.oblige(f"{self.qualname}.post.no_message_only_when_not_parsed", s, z3.Not(parsed), site=fi.lineno, observe=obs)
            else:
                good = isinstance(msg, Ref) and s.obj(msg).cls == M
                eng.oblige(f"{self.qualname}.post.message_when_parsed", s, z3.And(parsed, z3.BoolVal(good)), site=fi.lineno, observe=obs)
                if good:
                    mf = s.obj(msg).fields
                    # message built by parse(raw, validate=self._validate, labelmsm=self._labelmsm)
                    eng.oblige(f"{self.qualname}.post.message_payload_is_frame_payload", s,
                               is_slice(mf["_payload"], arr, p0 + 1, p0 + 1 + size), site=fi.lineno, observe=obs)
                    eng.oblige(f"{self.qualname}.post.validated_with_reader_option", s,
                               z3.Implies(int_term(fld["_validate"]) % 2 == 1, crc_zero(s, raw)), site=fi.lineno, observe=obs)
                    eng.oblige(f"{self.qualname}.post.labelmsm_is_reader_option", s, z3.BoolVal(mf["_labelmsm"] is fld["_labelmsm"]), site=fi.lineno)
        return canary


# ---------------------------------------------------------------------------------------
@register
class ParseUbx(Contract):
    qualname = R + "._parse_ubx"

    # requires hdr = src[p0-2:p0];  normal => raw = src[p0-2 : p0+6+L], pos' = p0+6+L, L = src[p0+2] + 256*src[p0+3]
    def apply(self, eng, st, selfv, args, kwargs, site):
        hdr = args[0]
        stream = stream_of(st, selfv)
        arr = st.obj(stream).fields["arr"]
        p0 = spos(st, stream)
        eng.oblige(f"{self.qualname}.pre.hdr_is_last_two_bytes_read", st, is_slice(hdr, arr, p0 - 2, p0), kind="pre", site=site)
        RB = R + "._read_bytes"
        outs = []
        for s1, b4 in eng.call_qual(RB, st, selfv, [4], {}, site):
            if isinstance(b4, RaiseExc):
                outs.append((s1, b4))
                continue
            L = z3.simplify(byte_at(s1, arr, p0 + 2) + 256 * byte_at(s1, arr, p0 + 3))
            for s2, rest in eng.call_qual(RB, s1, selfv, [SInt(L + 2)], {}, site):
                if isinstance(rest, RaiseExc):
                    outs.append((s2, rest))
                    continue
                outs.append((s2, (SBytes([View(arr, p0 - 2, z3.simplify(p0 + 6 + L))]), None)))
        return outs

    def verify(self, eng, inst):
        fi = extract.func(self.qualname)
        st = State()
        stream = new_stream(st)
        selfv = new_reader(st, stream)
        f0 = st.obj(stream).fields
        p0, arr, end = f0["pos"], f0["arr"], f0["end"]
        st.assume(p0 >= 2)
        hdr = SBytes([View(arr, p0 - 2, p0)])
        L = byte_at(st, arr, p0 + 2) + 256 * byte_at(st, arr, p0 + 3)
        canary = []
        for s, out in eng.exec_function(fi, st, {"self": selfv, "hdr": hdr}, contract=self):
            pos = spos(s, stream)
            obs = {"L": L, "consumed": pos - p0}
            if isinstance(out, RaiseExc):
                eng.oblige(f"{self.qualname}.exc.only_stream_errors_pos_monotone", s,
                           z3.And(z3.BoolVal(out.cls in (EOFError, exc("RTCMStreamError"))), pos >= p0, pos <= end), kind="exc",
                           site=fi.lineno, observe=obs, note=f"raises {out.cls.__name__}")
                continue
            canary.append(s)
            r = out.v
            ok = isinstance(r, tuple) and len(r) == 2 and r[1] is None
            eng.oblige(f"{self.qualname}.post.consumes_exactly_the_ubx_frame", s,
                       z3.And(z3.BoolVal(ok), is_slice(r[0], arr, p0 - 2, p0 + 6 + L) if ok else False, pos == p0 + 6 + L),
                       site=fi.lineno, observe=obs)
        return canary


@register
class ParseNmea(Contract):
    qualname = R + "._parse_nmea"

    # requires hdr = src[p0-2:p0];  normal => raw = src[p0-2 : NextLF(p0)+1], pos' = NextLF(p0)+1
    def apply(self, eng, st, selfv, args, kwargs, site):
        hdr = args[0]
        stream = stream_of(st, selfv)
        arr = st.obj(stream).fields["arr"]
        p0 = spos(st, stream)
        eng.oblige(f"{self.qualname}.pre.hdr_is_last_two_bytes_read", st, is_slice(hdr, arr, p0 - 2, p0), kind="pre", site=site)
        outs = []
        for s1, line in eng.call_qual(R + "._read_line", st, selfv, [], {}, site):
            if isinstance(line, RaiseExc):
                outs.append((s1, line))
                continue
            outs.append((s1, (SBytes([View(arr, p0 - 2, spos(s1, stream))]), None)))
        return outs

    def verify(self, eng, inst):
        fi = extract.func(self.qualname)
        st = State()
        stream = new_stream(st)
        selfv = new_reader(st, stream)
        f0 = st.obj(stream).fields
        p0, arr, end = f0["pos"], f0["arr"], f0["end"]
        st.assume(p0 >= 2)
        hdr = SBytes([View(arr, p0 - 2, p0)])
        canary = []
        for s, out in eng.exec_function(fi, st, {"self": selfv, "hdr": hdr}, contract=self):
            pos = spos(s, stream)
            if isinstance(out, RaiseExc):
                eng.oblige(f"{self.qualname}.exc.only_stream_errors_pos_monotone", s,
                           z3.And(z3.BoolVal(out.cls in (EOFError, exc("RTCMStreamError"))), pos >= p0, pos <= end), kind="exc",
                           site=fi.lineno, note=f"raises {out.cls.__name__}")
                continue
            canary.append(s)
            r = out.v
            ok = isinstance(r, tuple) and len(r) == 2 and r[1] is None
            eng.oblige(f"{self.qualname}.post.consumes_through_first_LF", s,
                       z3.And(z3.BoolVal(ok), is_slice(r[0], arr, p0 - 2, NEXTLF(p0) + 1) if ok else False, pos == NEXTLF(p0) + 1),
                       site=fi.lineno)
        return canary


@register
class DoError(Contract):
    qualname = R + "._do_error"

    # quitonerror == 2 => raises err;  == 1 => returns, handler called exactly once if there is one;
    # otherwise returns, handler not called
    def apply(self, eng, st, selfv, args, kwargs, site):
        err = args[0]
        f = st.obj(selfv).fields
        q = int_term(f["_quitonerror"])
        outs = []
        for s, b in eng.branch(st, q == 2):
            if b:
                outs.append((s, RaiseExc(err.cls, err.msg, tag=err.tag)))
                continue
            for s2, b2 in eng.branch(s, q == 1):
                if b2 and s2.obj(selfv).fields["_errorhandler"] is not None:
                    s2.ghost["hcalls"] = SInt(z3.simplify(int_term(s2.ghost.get("hcalls", 0)) + 1))
                outs.append((s2, None))
        return outs

    def instances(self, tier):
        return ["handler", "nohandler"]

    def verify(self, eng, inst):
        fi = extract.func(self.qualname)
        st = State()
        stream = new_stream(st)
        selfv = new_reader(st, stream, handler=(inst == "handler"))
        q = int_term(st.obj(selfv).fields["_quitonerror"])
        h0 = z3.Int("hcalls0")
        st.ghost["hcalls"] = SInt(h0)
        err = ExcValue(exc("RTCMParseError"), "x", tag="the_error")
        canary = []
        for s, out in eng.exec_function(fi, st, {"self": selfv, "err": err}, contract=self):
            h = int_term(s.ghost["hcalls"])
            obs = {"quitonerror": q}
            if isinstance(out, RaiseExc):
                eng.oblige(f"{self.qualname}.exc.reraises_the_error_only_in_raise_mode[{inst}]", s,
                           z3.And(q == 2, z3.BoolVal(out.cls is err.cls and out.tag == "the_error"), h == h0), kind="exc", observe=obs)
                continue
            canary.append(s)
            inc = 1 if inst == "handler" else 0
            eng.oblige(f"{self.qualname}.post.handler_called_once_in_log_mode_only[{inst}]", s,
                       z3.And(q != 2, h == z3.If(q == 1, h0 + inc, h0)), observe=obs)
        return canary


# ---------------------------------------------------------------------------------------
def wf_header_and_length(st, arr, lo, hi):
    """preamble 0xD3, six zero bits, length field == enclosed payload size."""
    b0, b1, b2 = byte_at(st, arr, lo), byte_at(st, arr, lo + 1), byte_at(st, arr, lo + 2)
    return z3.And(hi - lo >= 6, b0 == 0xD3, b1 < 4, b1 * 256 + b2 == hi - lo - 6)


def loop_flag_name():
    """The flag that keeps read()'s loop going is whatever name its `while` tests: robust against renaming."""
    import ast
    fi = extract.func(R + ".read")
    for n in ast.walk(fi.node):
        if isinstance(n, ast.While):
            names = [x.id for x in ast.walk(n.test) if isinstance(x, ast.Name)]
            if names:
                return names[0]
    return "parsing"


@register
class Read(Contract):
    qualname = R + ".read"

    # ---- safety contract (C01, C04, C05 mode semantics), any stream, any faults
    # normal (raw, msg):
    #   raw is None  => msg is None and the last stream read returned nothing
    #   raw not None => raw = src[s:pos'] for some s >= p0, WF header+length, parsed => (validate&1 => CRC(raw)=0)
    #                   and msg.payload = raw[3:-3];  not parsed => msg is None
    # raises         => quitonerror == 2 and the class is one of the four library errors
    # always         => p0 <= pos' <= |src|;  quitonerror == 0 => handler never called
    def apply(self, eng, st, selfv, args, kwargs, site):
        fld = st.obj(selfv).fields
        stream = fld["_stream"]
        sf = st.obj(stream).fields
        arr, end, p0 = sf["arr"], sf["end"], sf["pos"]
        q = int_term(fld["_quitonerror"])
        outs = []
        tag = st.next_oid[0]
        st.next_oid[0] += 1
        pos1 = z3.Int(f"pos_after_read_{tag}")
        h1 = z3.Int(f"hcalls_after_read_{tag}")
        h0 = int_term(st.ghost.get("hcalls", 0))
        st.assume(pos1 >= p0, pos1 <= end, h1 >= h0, z3.Implies(q == 0, h1 == h0))
        sf["pos"] = pos1
        sf["last_empty"] = SBool(z3.Bool(f"last_empty_{tag}"))
        st.ghost["hcalls"] = SInt(h1)
        # end of data
        s_end = st.fork()
        s_end.assume(bool_term(s_end.obj(stream).fields["last_empty"]))
        outs.append((s_end, (None, None)))
        # a frame
        s_fr = st.fork()
        s0 = z3.Int(f"frame_start_{tag}")
        s_fr.assume(s0 >= p0, s0 + 6 <= pos1, wf_header_and_length(s_fr, arr, s0, pos1))
        raw = SBytes([View(arr, s0, pos1)])
        parsed = ops.truth(s_fr, fld["_parsed"])
        for s2, b in eng.branch(s_fr, parsed):
            if b:
                from contracts.message import new_message
                from spec import layout
                s2.assume(z3.Implies(int_term(fld["_validate"]) % 2 == 1, crc_zero(s2, raw)))
                msg = new_message(s2, SBytes([View(arr, s0 + 3, pos1 - 3)]), labelmsm=fld["_labelmsm"], immutable=True)
                s2.obj(msg).abs = z3.Const(f"Smsg_{tag}", layout.MsgState)
                outs.append((s2, (raw, msg)))
            else:
                outs.append((s2, (raw, None)))
        # an error in raise mode
        for cls in lib_classes():
            s_ex = st.fork()
            s_ex.assume(q == 2)
            if feasible(s_ex.pc):
                outs.append((s_ex, RaiseExc(cls, "reader error")))
        return outs

    def instances(self, tier):
        return ["safety:handler", "safety:nohandler", "safety:bytearray-stream:nohandler"]

    def loop_spec(self, selfv, stream, p0, end, h0, q):
        def havoc(eng, st):
            f = st.obj(stream).fields
            f["pos"] = z3.Int("pos_at_loop_head")
            f["last_empty"] = SBool(z3.Bool("last_empty_at_loop_head"))
            st.ghost["hcalls"] = SInt(z3.Int("hcalls_at_loop_head"))

        def inv(eng, st, k):
            pos = spos(st, stream)
            h = int_term(st.ghost["hcalls"])
            head = z3.Int("pos_at_loop_head")
            # variant |src| - pos: an iteration that goes round again has consumed at least one byte
            progress = z3.BoolVal(True) if (z3.eq(pos, head) or z3.eq(pos, p0)) else pos > head
            return [("still_parsing", bool_term(ops.truth(st, st.env[loop_flag_name()]))),
                    ("variant_each_iteration_consumes_a_byte", progress),
                    ("pos_monotone", z3.And(pos >= p0, pos <= end)),
                    ("handler_never_called_in_ignore_mode", z3.And(h >= h0, z3.Implies(q == 0, h == h0)))]
        return LoopSpec(invariant=inv, havoc=havoc)

    def verify(self, eng, inst):
        fi = extract.func(self.qualname)
        st = State()
        # third instance (C04 'any finite stream'): a file-like object whose read()/readline() return bytearray objects
        stream = new_stream(st, bytearray_results="bytearray-stream" in inst)
        selfv = new_reader(st, stream, handler=inst.endswith(":handler"))
        sf = st.obj(stream).fields
        p0, arr, end = sf["pos"], sf["arr"], sf["end"]
        fld = st.obj(selfv).fields
        q = int_term(fld["_quitonerror"])
        parsed = bool_term(fld["_parsed"])
        validate = int_term(fld["_validate"])
        h0 = z3.Int("hcalls0")
        st.ghost["hcalls"] = SInt(h0)
        self.loops = {0: self.loop_spec(selfv, stream, p0, end, h0, q)}
        canary = []
        libs = lib_classes()
        Q = self.qualname
        for s, out in eng.exec_function(fi, st, {"self": selfv}, contract=self):
            pos = spos(s, stream)
            h = int_term(s.ghost["hcalls"])
            obs = {"quitonerror": q, "consumed": pos - p0}
            eng.oblige(f"{Q}.always.pos_monotone[{inst}]", s, z3.And(pos >= p0, pos <= end), site=fi.lineno, observe=obs)
            eng.oblige(f"{Q}.always.handler_never_called_in_ignore_mode[{inst}]", s, z3.Implies(q == 0, h == h0), site=fi.lineno, observe=obs)
            if isinstance(out, RaiseExc):
                eng.oblige(f"{Q}.exc.only_library_errors_and_only_in_raise_mode[{inst}]", s,
                           z3.And(q == 2, z3.BoolVal(out.cls in libs)), kind="exc", site=fi.lineno, observe=obs,
                           note=f"raises {out.cls.__name__}")
                continue
            canary.append(s)
            r = out.v
            if not (isinstance(r, tuple) and len(r) == 2):
                eng.oblige(f"{Q}.post.returns_pair[{inst}]", s, False, note=repr(r))
                continue
            raw, msg = r
            if raw is None:
                le = s.obj(stream).fields["last_empty"]
                eng.oblige(f"{Q}.post.none_only_at_end_of_data[{inst}]", s,
                           z3.And(z3.BoolVal(msg is None), bool_term(le) if not isinstance(le, bool) else z3.BoolVal(le)), site=fi.lineno, observe=obs)
                continue
            w = view_of(raw)
            if w is None or w.arr is not arr:
                eng.oblige(f"{Q}.post.raw_is_contiguous_slice_of_stream[{inst}]", s, False, note=repr(raw))
                continue
            eng.oblige(f"{Q}.post.raw_is_contiguous_slice_of_stream[{inst}]", s, z3.And(w.lo >= p0, w.hi == pos), site=fi.lineno, observe=obs)
            eng.oblige(f"{Q}.post.raw_has_wellformed_header_and_length[{inst}]", s, wf_header_and_length(s, arr, w.lo, w.hi), site=fi.lineno, observe=obs)
            if msg is None:
                eng.oblige(f"{Q}.post.no_message_only_when_not_parsed[{inst}]", s, z3.Not(parsed), site=fi.lineno, observe=obs)
            else:
                good = isinstance(msg, Ref) and s.obj(msg).cls == M
                eng.oblige(f"{Q}.post.message_only_when_parsed[{inst}]", s, z3.And(parsed, z3.BoolVal(good)), site=fi.lineno, observe=obs)
                eng.oblige(f"{Q}.post.crc_valid_when_validating[{inst}]", s, z3.Implies(validate % 2 == 1, crc_zero(s, raw)), site=fi.lineno, observe=obs)
                if good:
                    eng.oblige(f"{Q}.post.message_payload_is_frame_payload[{inst}]", s,
                               is_slice(s.obj(msg).fields["_payload"], arr, w.lo + 3, w.hi - 3), site=fi.lineno, observe=obs)
        return canary


@register
class Iter(Contract):
    qualname = R + ".__iter__"

    # the reader is its own iterator: iter(r) is r, nothing is read or written - so an iterator obtained once keeps working after
    # an exception raised by next() (C05 "the same reader keeps working"), and `for` / next() / read() all advance one shared cursor
    def apply(self, eng, st, selfv, args, kwargs, site):
        return [(st, selfv)]

    def verify(self, eng, inst):
        fi = extract.func(self.qualname)
        st = State()
        stream = new_stream(st)
        selfv = new_reader(st, stream)
        p0 = spos(st, stream)
        st.writes = set()
        canary = []
        for s, out in eng.exec_function(fi, st, {"self": selfv}, contract=self):
            if isinstance(out, RaiseExc):
                eng.oblige(f"{self.qualname}.raises_nothing", s, False, kind="exc", note=out.cls.__name__)
                continue
            canary.append(s)
            eng.oblige(f"{self.qualname}.post.returns_the_reader_itself", s, z3.BoolVal(isinstance(out.v, Ref) and out.v == selfv), note=repr(out.v))
            eng.oblige(f"{self.qualname}.frame.reads_and_writes_nothing", s, z3.And(spos(s, stream) == p0, z3.BoolVal(not s.writes)), kind="frame")
        return canary


@register
class Next(Contract):
    qualname = R + ".__next__"

    # the outcome of read(), with (None, None) turned into StopIteration
    def instances(self, tier):
        return ["nohandler"]

    def verify(self, eng, inst):
        fi = extract.func(self.qualname)
        st = State()
        stream = new_stream(st)
        selfv = new_reader(st, stream)
        q = int_term(st.obj(selfv).fields["_quitonerror"])
        canary = []
        libs = lib_classes()
        for s, out in eng.exec_function(fi, st, {"self": selfv}, contract=self):
            if isinstance(out, RaiseExc):
                if out.cls is StopIteration:
                    le = s.obj(stream).fields["last_empty"]
                    eng.oblige(f"{self.qualname}.exc.StopIteration_only_at_end_of_data", s, bool_term(le), kind="exc")
                else:
                    eng.oblige(f"{self.qualname}.exc.library_errors_only_in_raise_mode", s, z3.And(q == 2, z3.BoolVal(out.cls in libs)),
                               kind="exc", note=f"raises {out.cls.__name__}")
                continue
            canary.append(s)
            r = out.v
            eng.oblige(f"{self.qualname}.post.returns_a_frame", s, z3.BoolVal(isinstance(r, tuple) and len(r) == 2 and r[0] is not None))
        return canary


# ---------------------------------------------------------------------------------------
# completeness (C02, C05, C17): ghost item partition of a well-formed stream
# ---------------------------------------------------------------------------------------
ISB = z3.Function("isB", z3.IntSort(), z3.BoolSort())        # p is an item boundary
KIND = z3.Function("kind", z3.IntSort(), z3.IntSort())       # 0 noise byte, 1 UBX, 2 NMEA, 3 RTCM valid, 4 RTCM damaged
IEND = z3.Function("iend", z3.IntSort(), z3.IntSort())       # end of the item starting at p
NORET = z3.Function("NoRet", z3.IntSort(), z3.IntSort(), z3.BoolSort())  # no returnable item in [a, b)
NBAD = z3.Function("NBad", z3.IntSort(), z3.IntSort(), z3.IntSort())     # number of reported-bad RTCM items in [a, b)
# talker letters of complete NMEA sentences, pinned from the property's reading of NMEA 0183 (not read from the tree)
TALKERS = b"VMPBDILGFSHREYACZTW"


def item_facts(st, stream, p):
    """Defining predicates of the item that starts at boundary p (instantiated by the engine at
    the current position only - Appendix A)."""
    f = st.obj(stream).fields
    arr, end = f["arr"], f["end"]
    b = lambda i: byte_at(st, arr, p + i)
    k, e = KIND(p), IEND(p)
    nl = nextlf_facts(st, stream, p + 2)
    facts = z3.Implies(z3.And(ISB(p), p < end), z3.And(
        k >= 0, k <= 4, e > p, e <= end, ISB(e),
        z3.Implies(k == 0, z3.And(e == p + 1, b(0) != 0xD3, b(0) != 0xB5, b(0) != 0x24)),
        z3.Implies(k == 1, z3.And(b(0) == 0xB5, b(1) == 0x62, e == p + 8 + b(4) + 256 * b(5))),
        z3.Implies(k == 2, z3.And(b(0) == 0x24, z3.Or(*[b(1) == t for t in TALKERS]), nl == e - 1, e >= p + 3)),
        z3.Implies(z3.Or(k == 3, k == 4), z3.And(b(0) == 0xD3, b(1) < 4, e == p + 6 + b(1) * 256 + b(2))),
        z3.Implies(k == 3, int_term(sc.crc_of_value(st, SBytes([View(arr, p, e)]))) == 0),
        z3.Implies(k == 4, int_term(sc.crc_of_value(st, SBytes([View(arr, p, e)]))) != 0),
    ))
    return facts


def ret_pred(st, stream, fld, p):
    """Ret(p): the item at p is an RTCM frame that this reader configuration returns."""
    from contracts.message_glue import parses_ok
    arr = st.obj(stream).fields["arr"]
    k, e = KIND(p), IEND(p)
    v = int_term(fld["_validate"]) % 2 == 1
    parsed = bool_term(fld["_parsed"])
    pok = parses_ok(st, SBytes([View(arr, p + 3, e - 3)]), fld["_labelmsm"])
    hdrok = has_header_terms(st, arr, p + 3, e - 3)
    is_rtcm = z3.Or(k == 3, k == 4)
    ret = z3.And(is_rtcm, z3.Or(z3.Not(parsed), z3.And(z3.Implies(v, k == 3), hdrok, pok)))
    bad = z3.And(is_rtcm, z3.Not(ret))
    return ret, bad


def has_header_terms(st, arr, lo, hi):
    from contracts.message import has_header
    return has_header(st, SBytes([View(arr, lo, hi)]))


def chain_unfold(st, stream, fld, a, p):
    ret, bad = ret_pred(st, stream, fld, p)
    e = IEND(p)
    return z3.And(NORET(a, e) == z3.And(NORET(a, p), z3.Not(ret)),
                  NBAD(a, e) == NBAD(a, p) + z3.If(bad, 1, 0))


def verify_read_complete(self, eng, inst):
    fi = extract.func(self.qualname)
    st = State()
    stream = new_stream(st, faultfree=True)
    handler = inst.endswith(":handler")
    selfv = new_reader(st, stream, handler=handler)
    sf = st.obj(stream).fields
    p0, arr, end = sf["pos"], sf["arr"], sf["end"]
    fld = st.obj(selfv).fields
    q = int_term(fld["_quitonerror"])
    h0 = z3.Int("hcalls0")
    st.ghost["hcalls"] = SInt(h0)
    st.assume(ISB(p0), NORET(p0, p0), NBAD(p0, p0) == 0)
    H = z3.If(z3.And(q == 1, z3.BoolVal(handler)), 1, 0)
    head = z3.Int("pos_at_loop_head")
    Q = self.qualname

    def havoc(eng_, s):
        f = s.obj(stream).fields
        f["pos"] = head
        f["last_empty"] = SBool(z3.Bool("last_empty_at_loop_head"))
        s.ghost["hcalls"] = SInt(z3.Int("hcalls_at_loop_head"))

    def inv(eng_, s, k):
        pos = spos(s, stream)
        h = int_term(s.ghost["hcalls"])
        return [("still_parsing", bool_term(ops.truth(s, s.env[loop_flag_name()]))),
                ("pos_at_item_boundary", z3.And(ISB(pos), pos >= p0, pos <= end)),
                ("no_returnable_item_skipped", NORET(p0, pos)),
                ("handler_calls_count_bad_frames", h == h0 + H * NBAD(p0, pos)),
                ("raise_mode_stops_at_first_bad_frame", z3.Implies(q == 2, NBAD(p0, pos) == 0))]

    covered = set()

    def facts(eng_, s, k):
        return [item_facts(s, stream, head), chain_unfold(s, stream, fld, p0, head)]

    _inv0 = inv

    def inv(eng_, s, k):  # noqa: F811  at a back edge also record which item kinds got skipped (vacuity guard)
        pos = spos(s, stream)
        if not z3.eq(pos, head) and not z3.eq(pos, p0):
            for kk, nm in ((0, "noise"), (1, "ubx"), (2, "nmea"), (3, "rtcm_valid_but_unparseable"), (4, "rtcm_damaged")):
                eng_.cover(f"{Q}.complete.cover.skips_{nm}_item[{inst}]", s, KIND(head) == kk)
        return _inv0(eng_, s, k)

    self.loops = {0: LoopSpec(invariant=inv, havoc=havoc, facts=facts)}
    canary = []
    libs = lib_classes()
    for s, out in eng.exec_function(fi, st, {"self": selfv}, contract=self):
        pos = spos(s, stream)
        h = int_term(s.ghost["hcalls"])
        ret, bad = ret_pred(s, stream, fld, head)
        obs = {"quitonerror": q, "item_kind": KIND(head), "item_len": IEND(head) - head, "validate": int_term(fld["_validate"]),
               "parsed": bool_term(fld["_parsed"])}
        if isinstance(out, RaiseExc):
            eng.oblige(f"{Q}.complete.exc.raises_exactly_at_a_bad_frame_in_raise_mode[{inst}]", s,
                       z3.And(q == 2, z3.BoolVal(out.cls in libs), bad, NORET(p0, head), pos == IEND(head), ISB(pos), h == h0),
                       kind="exc", site=fi.lineno, observe=obs, note=f"raises {out.cls.__name__}")
            continue
        canary.append(s)
        r = out.v
        if not (isinstance(r, tuple) and len(r) == 2):
            eng.oblige(f"{Q}.complete.post.returns_pair[{inst}]", s, False, note=repr(r))
            continue
        raw, msg = r
        if raw is None:
            eng.cover(f"{Q}.complete.cover.end_of_data_reachable[{inst}]", s, pos == end)
            eng.oblige(f"{Q}.complete.post.none_only_when_all_items_consumed[{inst}]", s,
                       z3.And(pos == end, NORET(p0, end), h == h0 + H * NBAD(p0, end)), site=fi.lineno, observe=obs)
            continue
        eng.cover(f"{Q}.complete.cover.frame_return_reachable[{inst}]", s, True)
        eng.oblige(f"{Q}.complete.post.returns_first_returnable_item_exactly[{inst}]", s,
                   z3.And(is_slice(raw, arr, head, IEND(head)), ret, NORET(p0, head), pos == IEND(head), ISB(pos)),
                   site=fi.lineno, observe=obs)
        eng.oblige(f"{Q}.complete.post.handler_called_once_per_bad_frame_in_log_mode_only[{inst}]", s,
                   h == h0 + H * NBAD(p0, pos), site=fi.lineno, observe=obs)
        eng.oblige(f"{Q}.complete.post.parsed_object_iff_parsing_on[{inst}]", s,
                   z3.BoolVal(msg is None) == z3.Not(bool_term(fld["_parsed"])), site=fi.lineno, observe=obs)
    return canary


_old_read_verify = Read.verify
_old_read_instances = Read.instances


def _read_instances(self, tier):
    return _old_read_instances(self, tier) + ["complete:handler", "complete:nohandler"]


def _read_verify(self, eng, inst):
    if inst.startswith("complete"):
        return verify_read_complete(self, eng, inst)
    return _old_read_verify(self, eng, inst)


Read.instances = _read_instances
Read.verify = _read_verify



@register
class ReaderInit(Contract):
    qualname = R + ".__init__"

    # a non-socket stream is stored as it is; options are stored verbatim; the stream is not touched
    def instances(self, tier):
        return ["filelike", "socket"]

    def verify_socket(self, eng):
        from contracts.socketw import W, new_socket
        fi = extract.func(self.qualname)
        st = State()
        sock = new_socket(st)
        o = HObject(R)
        o.pycls = extract.module("pyrtcm.rtcmreader").RTCMReader
        selfv = st.alloc(o)
        names = ["validate", "quitonerror", "labelmsm", "bufsize", "parsed", "encoding"]
        args = {n: SInt(z3.Int(f"opt_{n}")) for n in names}
        args["errorhandler"] = None
        canary = []
        for s, out in eng.exec_function(fi, st, dict(self=selfv, datastream=sock, **args), contract=self):
            if isinstance(out, RaiseExc):
                eng.oblige(f"{self.qualname}.socket.raises_nothing", s, False, kind="exc", note=out.cls.__name__)
                continue
            canary.append(s)
            strm = s.obj(selfv).fields.get("_stream")
            ok = isinstance(strm, Ref) and s.obj(strm).cls == W
            good = ok and s.obj(strm).fields.get("_socket") == sock and s.obj(strm).fields.get("_bufsize") is args["bufsize"] \
                and s.obj(strm).fields.get("_encoding") is args["encoding"]
            eng.oblige(f"{self.qualname}.post.socket_is_wrapped_with_bufsize_and_encoding", s, z3.BoolVal(bool(good)))
        return canary

    def verify(self, eng, inst):
        if inst == "socket":
            return self.verify_socket(eng)
        fi = extract.func(self.qualname)
        st = State()
        stream = new_stream(st)
        o = HObject(R)
        o.pycls = extract.module("pyrtcm.rtcmreader").RTCMReader
        selfv = st.alloc(o)
        names = ["validate", "quitonerror", "labelmsm", "bufsize", "parsed", "errorhandler", "encoding"]
        args = {n: SInt(z3.Int(f"opt_{n}")) for n in names}
        args["parsed"] = SBool(z3.Bool("opt_parsed"))
        args["errorhandler"] = None
        p0 = spos(st, stream)
        st.writes = set()
        canary = []
        for s, out in eng.exec_function(fi, st, dict(self=selfv, datastream=stream, **args), contract=self):
            if isinstance(out, RaiseExc):
                eng.oblige(f"{self.qualname}.raises_nothing", s, False, kind="exc", note=out.cls.__name__)
                continue
            canary.append(s)
            f = s.obj(selfv).fields
            ok = (f.get("_stream") == stream and f.get("_validate") is args["validate"] and f.get("_quitonerror") is args["quitonerror"]
                  and f.get("_labelmsm") is args["labelmsm"] and f.get("_parsed") is args["parsed"] and f.get("_errorhandler") is None)
            eng.oblige(f"{self.qualname}.post.options_and_stream_stored_verbatim", s, z3.BoolVal(bool(ok)), note=str(sorted(f)))
            eng.oblige(f"{self.qualname}.post.stream_not_touched", s,
                       z3.And(spos(s, stream) == p0, z3.BoolVal(not any(w[0] == stream.oid for w in s.writes))))
        return canary
