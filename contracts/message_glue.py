"""Contracts: the recursive walk of the definition tables (DESIGN C03-L2/L3, C04, C06, C14):
RTCMMessage._set_attribute / _set_attribute_group / _set_attribute_optional /
_do_attributes / __init__, over the *abstract* message state of spec/layout.py.

Each function is verified once per concrete node of the real tables (instances are
re-derived from the working tree on every run).
"""
import z3

from pyvc import extract, ops
from pyvc.contract import Contract, register
from pyvc.ops import norm
from pyvc.state import State, feasible
from pyvc.symex import LoopSpec, Return, SomeException
from pyvc.values import (
    EngineUnsupported, HList, HObject, RaiseExc, Ref, SBool, SBytes, SInt, SPayInt, View, int_term,
)
from contracts.message import M, exc, generic_payload, has_header, new_message, payload_tables
from spec import layout

# ---------------------------------------------------------------------------------------
# table walking
# ---------------------------------------------------------------------------------------


def all_dicts():
    """Every definition dict reachable from the three payload tables, with the nesting depth(s)
    at which it occurs: {id: (dict, {depths}, example path)}."""
    out = {}

    def walk(d, depth, path):
        ent = out.setdefault(id(d), (d, set(), path))
        if depth in ent[1]:
            return
        ent[1].add(depth)
        for k, v in d.items():
            if isinstance(v, tuple) and len(v) == 2 and isinstance(v[1], dict):
                cnt, sub = v
                walk(sub, depth if isinstance(cnt, tuple) else depth + 1, f"{path}/{k}")
    for t in payload_tables():
        for ident, d in t.items():
            if isinstance(d, dict):
                walk(d, 0, ident)
    return out


def abstract_message(st, name="S0"):
    pv = generic_payload(st, "p", minlen=2)
    payload = SBytes([pv])
    ref = new_message(st, payload)
    obj = st.obj(ref)
    obj.abs = z3.Const(name, layout.MsgState)
    obj.fields.update({"_payloadi": SPayInt(pv), "_payblen": SInt(8 * pv.length()), "_unknown": False,
                       "_satmap": None, "_cellmap": None})
    return ref


def index_list(st, depth):
    idx = [z3.Int(f"ix{j}") for j in range(depth)]
    for t in idx:
        st.assume(t >= 1)
    return st.alloc(HList([SInt(t) for t in idx])), idx


def idx_terms(st, index):
    return [int_term(x) for x in st.obj(index).items]


def apply_R(eng, st, selfv, index, triple, what):
    """Caller view shared by the walk functions: fork on ok; on success install the new
    abstract state and return (offset', index)."""
    ok, S1, off1 = triple
    outs = []
    for s, b in eng.branch(st, z3.simplify(ok)):
        if b:
            s.obj(selfv).abs = S1
            s.writes.add((selfv.oid, "abs"))
            outs.append((s, (SInt(z3.simplify(off1)), index)))
        else:
            from contracts.message_leaf import leaf_failure_class
            outs.append((s, RaiseExc(leaf_failure_class(), f"{what} failed", tag=what)))
    return outs


def check_outcomes(eng, q, tag, outs, selfv, index, idx0, triple, site):
    """Callee view shared by the walk functions: normal => ok and post-state = R; raises =>
    not ok (the spec walk fails too)."""
    ok, S1, off1 = triple
    canary = []
    for s, out in outs:
        if isinstance(out, RaiseExc):
            eng.oblige(f"{q}.exc.raises_only_if_R_fails[{tag}]", s, z3.Not(ok), kind="exc", site=site,
                       note=f"raises {out.cls.__name__}")
            continue
        canary.append(s)
        r = out.v
        good_shape = isinstance(r, tuple) and len(r) == 2 and isinstance(r[1], Ref) and r[1].oid == index.oid
        if not good_shape:
            eng.oblige(f"{q}.post.returns_offset_and_same_index_list[{tag}]", s, False, site=site, note=repr(r))
            continue
        items = s.obj(index).items
        same_idx = len(items) == len(idx0) and all(True for _ in items)
        eng.oblige(f"{q}.post.index_restored[{tag}]", s,
                   z3.And(z3.BoolVal(same_idx), *[int_term(a) == b for a, b in zip(items, idx0)]) if same_idx else z3.BoolVal(False),
                   site=site)
        eng.oblige(f"{q}.post.R_ok[{tag}]", s, ok, site=site)
        eng.oblige(f"{q}.post.state_is_R[{tag}]", s, s.obj(selfv).abs == S1, site=site)
        eng.oblige(f"{q}.post.offset_is_R[{tag}]", s, int_term(r[0]) == off1, site=site)
    return canary


# ---------------------------------------------------------------------------------------
@register
class SetAttributeSingleAbs(Contract):
    """Caller view of the leaf over the abstract state; the callee view (L1, per data field)
    is in contracts/message_leaf.py and registers under the same name there."""
    qualname = M + "._set_attribute_single"

    def apply(self, eng, st, selfv, args, kwargs, site):
        anam, offset, index = args
        if getattr(st.obj(selfv), "abs", None) is None:
            raise EngineUnsupported("_set_attribute_single called on a concrete message state")
        idx = idx_terms(st, index)
        ok, fs, fo = layout.leaf_funs(anam, len(idx))
        a = [st.obj(selfv).abs, int_term(offset)] + idx
        outs = []
        for s, b in eng.branch(st, ok(*a)):
            if b:
                s.obj(selfv).abs = fs(*a)
                s.writes.add((selfv.oid, "abs"))
                outs.append((s, SInt(fo(*a))))
            else:
                from contracts.message_leaf import leaf_failure_class
                outs.append((s, RaiseExc(leaf_failure_class(), "leaf failed", tag="leaf")))
        return outs


@register
class SetAttribute(Contract):
    qualname = M + "._set_attribute"

    def apply(self, eng, st, selfv, args, kwargs, site):
        anam, pdict, offset, index = args
        if anam not in pdict:
            return [(st, RaiseExc(KeyError, anam))]
        tr = layout.R_item(anam, pdict[anam], st.obj(selfv).abs, int_term(offset), idx_terms(st, index))
        return apply_R(eng, st, selfv, index, tr, "_set_attribute")

    def instances(self, tier):
        out = []
        for did, (d, depths, path) in all_dicts().items():
            for depth in sorted(depths):
                out.append({"path": path, "depth": depth, "_dict": d})
        return out

    def verify(self, eng, inst):
        fi = extract.func(self.qualname)
        d, depth = inst["_dict"], inst["depth"]
        canary = []
        for key in d:
            st = State()
            selfv = abstract_message(st)
            S0 = st.obj(selfv).abs
            off0 = z3.Int("off0")
            st.assume(off0 >= 0)
            index, idx0 = index_list(st, depth)
            tr = layout.R_item(key, d[key], S0, off0, idx0)
            outs = eng.exec_function(fi, st, {"self": selfv, "anam": key, "pdict": d, "offset": SInt(off0), "index": index},
                                     contract=self)
            canary += check_outcomes(eng, self.qualname, f"{inst['path']}:{key}@{depth}", outs, selfv, index, idx0, tr, fi.lineno)
        return canary[:1]


@register
class SetAttributeOptional(Contract):
    qualname = M + "._set_attribute_optional"

    def apply(self, eng, st, selfv, args, kwargs, site):
        adef, offset, index = args
        tr = layout.R_optional(adef, st.obj(selfv).abs, int_term(offset), idx_terms(st, index))
        return apply_R(eng, st, selfv, index, tr, "_set_attribute_optional")

    def instances(self, tier):
        out = []
        for did, (d, depths, path) in all_dicts().items():
            for k, v in d.items():
                if isinstance(v, tuple) and isinstance(v[0], tuple):
                    for depth in sorted(depths):
                        out.append({"path": f"{path}/{k}", "depth": depth, "_adef": v})
        return out

    def verify(self, eng, inst):
        fi = extract.func(self.qualname)
        adef, depth = inst["_adef"], inst["depth"]
        st = State()
        selfv = abstract_message(st)
        S0 = st.obj(selfv).abs
        off0 = z3.Int("off0")
        st.assume(off0 >= 0)
        index, idx0 = index_list(st, depth)
        tr = layout.R_optional(adef, S0, off0, idx0)
        outs = eng.exec_function(fi, st, {"self": selfv, "adef": adef, "offset": SInt(off0), "index": index}, contract=self)
        return check_outcomes(eng, self.qualname, f"{inst['path']}@{depth}", outs, selfv, index, idx0, tr, fi.lineno)[:1]


@register
class SetAttributeGroup(Contract):
    qualname = M + "._set_attribute_group"

    def apply(self, eng, st, selfv, args, kwargs, site):
        adef, offset, index = args
        tr = layout.R_group(adef, st.obj(selfv).abs, int_term(offset), idx_terms(st, index))
        return apply_R(eng, st, selfv, index, tr, "_set_attribute_group")

    def instances(self, tier):
        out = []
        for did, (d, depths, path) in all_dicts().items():
            for k, v in d.items():
                if isinstance(v, tuple) and not isinstance(v[0], tuple):
                    for depth in sorted(depths):
                        out.append({"path": f"{path}/{k}", "depth": depth, "_adef": v})
        return out

    # loop `for i in range(gsiz)`: state at the head of iteration k is Iter(k)
    def make_loops(self, selfv, gdict, S0, off0, idx0, nterm):
        def havoc(eng, st):
            pass

        def off_at(eng, st, k):
            _, iS, ioff = layout.iter_funs(gdict, len(idx0))
            a = [k, S0, off0] + idx0
            st.obj(selfv).abs = iS(*a)  # substitution of the invariant's equalities
            st.writes.discard((selfv.oid, "abs"))
            return SInt(ioff(*a))

        def inv(eng, st, k):
            iok, iS, ioff = layout.iter_funs(gdict, len(idx0))
            a = [k, S0, off0] + idx0
            ks = z3.simplify(k)
            if z3.is_int_value(ks) and ks.as_long() == 0:
                st.assume(layout.iter_base(gdict, S0, off0, idx0))
            return [("iterations_so_far_ok", iok(*a)),
                    ("state_is_Iter_k", st.obj(selfv).abs == iS(*a)),
                    ("offset_is_Iter_k", int_term(st.env["offset"]) == ioff(*a))]

        def facts(eng, st, k):
            # the index list's last slot is overwritten at the start of every iteration
            return [layout.iter_unfold(gdict, k, S0, off0, idx0),
                    layout.iter_downward(gdict, k + 1, nterm, S0, off0, idx0)]

        def idx_havoc(eng, st, k):
            return st.env["index"]

        def hv(eng, st):
            lst = st.obj(st.env["index"])
            lst.items[-1] = SInt(z3.Int("ix_last_havoc"))

        spec = LoopSpec(invariant=inv, kinds={"offset": off_at, "index": idx_havoc}, facts=facts, havoc=hv)
        return spec

    def verify(self, eng, inst):
        fi = extract.func(self.qualname)
        adef, depth = inst["_adef"], inst["depth"]
        cnt, gdict = adef
        st = State()
        selfv = abstract_message(st)
        S0 = st.obj(selfv).abs
        off0 = z3.Int("off0")
        st.assume(off0 >= 0)
        index, idx0 = index_list(st, depth)
        tr = layout.R_group(adef, S0, off0, idx0)
        present, n = layout.group_count(cnt, S0, idx0)
        nterm = z3.If(n >= 0, n, z3.IntVal(0))
        loops_in_fn = [k for k in range(8)]
        # the `for i in range(gsiz)` loop is the one whose iterable is a symbolic range; give the
        # same spec to every ordinal - concrete loops never consult it
        spec = self.make_loops(selfv, gdict, S0, off0, idx0 + [], nterm)
        self.loops = {k: spec for k in loops_in_fn}
        # the group body runs with the index extended by the iteration number
        self._idx_body = idx0
        if isinstance(cnt, int):
            # constant-bounded loop is unrolled: supply the definitional unfoldings of Iter
            st.assume(layout.iter_base(gdict, S0, off0, idx0))
            for j in range(max(cnt, 0)):
                st.assume(layout.iter_unfold(gdict, z3.IntVal(j), S0, off0, idx0))
                st.assume(layout.iter_downward(gdict, z3.IntVal(j + 1), nterm, S0, off0, idx0))
        outs = eng.exec_function(fi, st, {"self": selfv, "adef": adef, "offset": SInt(off0), "index": index}, contract=self)
        return check_outcomes(eng, self.qualname, f"{inst['path']}@{depth}", outs, selfv, index, idx0, tr, fi.lineno)[:1]


# ---------------------------------------------------------------------------------------
DOATTR_OK = z3.Function("DoAttrOk", layout.MsgState, z3.BoolSort())
DOATTR_S = z3.Function("DoAttrS", layout.MsgState, layout.MsgState)


@register
class DoAttributes(Contract):
    qualname = M + "._do_attributes"

    # requires has_header(payload); normal => attrs = R(pdict)(empty) [or the unknown stub];
    # raises only RTCMTypeError, and only if R fails
    def apply(self, eng, st, selfv, args, kwargs, site):
        obj = st.obj(selfv)
        S0 = obj.abs
        outs = []
        for s, b in eng.branch(st, DOATTR_OK(S0)):
            if b:
                s.obj(selfv).abs = DOATTR_S(S0)
                s.writes.add((selfv.oid, "abs"))
                # the private bookkeeping the decode leaves behind is whatever it is (maps built for MSM types, None otherwise;
                # unknown-type flag): a caller must not branch on it in a way that matters - if it does, both ways are explored
                from pyvc.values import STruthy, fresh_name
                f = s.obj(selfv).fields
                for nm in ("_satmap", "_cellmap"):
                    if nm in f:
                        f[nm] = STruthy(z3.Bool(fresh_name(nm.strip("_") + "_built")))
                if "_unknown" in f:
                    f["_unknown"] = SBool(z3.Bool(fresh_name("unknown_type")))
                outs.append((s, None))
            else:
                outs.append((s, RaiseExc(exc("RTCMTypeError"), "Error processing attribute")))
        return outs

    def instances(self, tier):
        out = []
        for t in payload_tables():
            for ident in t:
                out.append({"identity": ident})
        out.append({"identity": "unknown:4095"})
        out.append({"identity": "unknown:1070"})
        out.append({"identity": "unknown:4076_255"})
        return out

    @staticmethod
    def header_of(ident):
        if ident.startswith("4076_"):
            sub = int(ident[5:])
            return bytes([0xFE, 0xC0 | (sub >> 7), (sub & 0x7F) << 1])
        mid = int(ident)
        return bytes([mid >> 4, (mid & 0xF) << 4])

    def verify(self, eng, inst):
        from contracts.message import GetDict
        fi = extract.func(self.qualname)
        ident = inst["identity"]
        unknown = ident.startswith("unknown:")
        if unknown:
            ident = ident.split(":")[1]
        hdr = self.header_of(ident)
        st = State()
        tail = generic_payload(st, "tail")
        payload = SBytes([hdr, tail])
        selfv = new_message(st, payload)
        obj = st.obj(selfv)
        obj.fields.update({"_payblen": SInt(8 * (len(hdr) + tail.length())), "_unknown": False, "_satmap": None, "_cellmap": None})
        pdict = GetDict().lookup(ident)
        canary = []
        if unknown or pdict is None:
            st.writes = set()
            for s, out in eng.exec_function(fi, st, {"self": selfv}, contract=self):
                if isinstance(out, RaiseExc):
                    eng.oblige(f"{self.qualname}.unknown_identity_raises_nothing[{ident}]", s, False, kind="exc", note=out.cls.__name__)
                    continue
                canary.append(s)
                o = s.obj(selfv)
                ent = o.attrs.get(("DF002", 0))
                ok = set(o.attrs) == {("DF002", 0)} and ent.dom is True and norm(ent.val) == ident and o.fields.get("_unknown") is True
                eng.oblige(f"{self.qualname}.post.unknown_stub_has_only_DF002[{ident}]", s, z3.BoolVal(ok), note=repr(o.attrs.keys()))
            return canary
        S0 = z3.Const("S0", layout.MsgState)
        obj.abs = S0
        tr = layout.R_top(pdict, S0)
        ok, S1, off1 = tr
        for s, out in eng.exec_function(fi, st, {"self": selfv}, contract=self):
            if isinstance(out, RaiseExc):
                eng.oblige(f"{self.qualname}.exc.only_RTCMTypeError[{ident}]", s, z3.BoolVal(out.cls is exc("RTCMTypeError")), kind="exc",
                           note=f"raises {out.cls.__name__}")
                eng.oblige(f"{self.qualname}.exc.raises_only_if_R_fails[{ident}]", s, z3.Not(ok), kind="exc")
                continue
            canary.append(s)
            eng.oblige(f"{self.qualname}.post.R_ok[{ident}]", s, ok)
            eng.oblige(f"{self.qualname}.post.attrs_are_R_of_definition[{ident}]", s, s.obj(selfv).abs == S1)
        return canary[:1]


def parses_ok(st, payload, labelmsm):
    """Bool term: the constructor returns normally on this payload (a function of the payload
    bytes and the label option only - C13)."""
    from pyvc.values import as_sbytes
    b = as_sbytes(payload)
    lm = int_term(labelmsm) if not isinstance(labelmsm, bool) else z3.IntVal(int(labelmsm))
    if len(b.segs) == 1 and isinstance(b.segs[0], View):
        v = b.segs[0]
        f = z3.Function(f"ParsesOK_{v.arr.name}", z3.IntSort(), z3.IntSort(), z3.IntSort(), z3.BoolSort())
        return f(v.lo, v.hi, lm)
    from pyvc.values import fresh_name
    return z3.Bool(fresh_name("ParsesOK"))


@register
class Init(Contract):
    qualname = M + ".__init__"

    def apply(self, eng, st, selfv, args, kwargs, site):
        payload = args[0] if args else kwargs.get("payload")
        labelmsm = args[1] if len(args) > 1 else kwargs.get("labelmsm", 1)
        # the message is a function of (payload, label option) and of nothing else: a caller that hands the constructor anything more
        # (the frame's checksum bytes, the reader, a flag) relies on behaviour this contract does not give it
        extra = sorted(set(kwargs) - {"payload", "labelmsm"})
        eng.oblige(f"{self.qualname}.pre.only_payload_and_label_option_are_passed", st, z3.BoolVal(len(args) <= 2 and not extra),
                   kind="pre", site=site, note=f"extra arguments: {extra or len(args) - 2}")
        if payload is None:
            return [(st, RaiseExc(exc("RTCMMessageError"), "Payload must be specified"))]
        outs = []
        for s, b in eng.branch(st, has_header(st, payload)):
            if not b:
                outs.append((s, RaiseExc(exc("RTCMMessageError"), "Payload too short")))
                continue
            for s2, b2 in eng.branch(s, parses_ok(s, payload, labelmsm)):
                if b2:
                    ref = new_message(s2, payload, labelmsm=labelmsm, immutable=True)
                    s2.obj(ref).abs = z3.Const(f"Sfinal_{ref.oid}", layout.MsgState)
                    outs.append((s2, ref))
                else:
                    outs.append((s2, RaiseExc(exc("RTCMTypeError"), "Error processing attribute")))
        return outs

    def instances(self, tier):
        return ["bytes", "None"]

    def verify(self, eng, inst):
        fi = extract.func(self.qualname)
        st = State()
        o = HObject(M)
        o.pycls = extract.module("pyrtcm.rtcmmessage").RTCMMessage
        o.dynamic = True
        o.symbolic_pre = False
        o.pre = {}
        S0 = z3.Const("Sempty", layout.MsgState)
        o.abs = S0
        selfv = st.alloc(o)
        lm = SInt(z3.Int("labelmsm"))
        canary = []
        libs = (exc("RTCMMessageError"), exc("RTCMTypeError"))
        if inst == "None":
            for s, out in eng.exec_function(fi, st, {"self": selfv, "payload": None, "labelmsm": lm}, contract=self):
                eng.oblige(f"{self.qualname}.exc.None_payload_raises_RTCMMessageError", s,
                           z3.BoolVal(isinstance(out, RaiseExc) and out.cls is exc("RTCMMessageError")), kind="exc")
                canary.append(s)
            return canary
        pv = generic_payload(st, "p")
        payload = SBytes([pv])
        hh = has_header(st, payload)
        obsv = {"len": pv.length(), "p0": pv.arr.f(pv.lo), "p1": pv.arr.f(pv.lo + 1)}
        for s, out in eng.exec_function(fi, st, {"self": selfv, "payload": payload, "labelmsm": lm}, contract=self):
            if isinstance(out, RaiseExc):
                eng.oblige(f"{self.qualname}.exc.only_library_errors", s, z3.BoolVal(out.cls in libs), kind="exc", site=fi.lineno,
                           note=f"raises {out.cls.__name__}", observe=obsv)
                if out.cls is exc("RTCMMessageError"):
                    # any payload that holds a message number is at least a stub (C15): the message error is reserved for
                    # payloads too short to carry an identity
                    eng.oblige(f"{self.qualname}.exc.message_error_only_without_identity_header", s, z3.Not(hh), kind="exc", site=fi.lineno,
                               observe=obsv)
                continue
            canary.append(s)
            obj = s.obj(selfv)
            f = obj.fields
            eng.oblige(f"{self.qualname}.post.payload_has_identity_header", s, hh, site=fi.lineno, observe=obsv)
            eng.oblige(f"{self.qualname}.post.payload_stored_verbatim", s, z3.BoolVal(f.get("_payload") is payload))
            eng.oblige(f"{self.qualname}.post.immutable_flag_set", s, z3.BoolVal(f.get("_immutable") is True))
            pi = f.get("_payloadi")
            eng.oblige(f"{self.qualname}.post.payloadi_is_int_of_payload", s, z3.BoolVal(isinstance(pi, SPayInt) and pi.view.arr is pv.arr and z3.eq(pi.view.lo, pv.lo) and z3.eq(pi.view.hi, pv.hi)), note=repr(pi))
            pb = f.get("_payblen")
            eng.oblige(f"{self.qualname}.post.payblen_is_8_len", s, int_term(pb) == 8 * pv.length() if pb is not None else z3.BoolVal(False))
            eng.oblige(f"{self.qualname}.post.labelmsm_stored", s, z3.BoolVal(f.get("_labelmsm") is lm))
            eng.oblige(f"{self.qualname}.post.attrs_from_do_attributes_only", s, obj.abs == DOATTR_S(S0))
        return canary
