"""Contracts: pyrtcm.rtcmhelpers.parse_msm / parse_4076_201 (DESIGN C18).

The message handed to the helpers is a constructed RTCMMessage; what is known about it is the
class invariant exported by the constructor (C03-L3): its attribute set is exactly the name
set of R(definition) - for an MSM type  X_ii  exists for 1 <= i <= NSat for exactly the
satellite-group leaves X of that type (likewise cells / NCell); for 4076_201  IDF039_ll_kk
exists exactly for 1 <= k <= nc(l), IDF040 for ns(l), IDF036_ll for 1 <= l <= IDF035+1, and
IDF035 is a 2-bit field.  These facts are instantiated by the engine at the loop index.
"""
import ast
import z3

from pyvc import extract, ops
from pyvc.contract import Contract, register
from pyvc.ops import norm
from pyvc.state import State
from pyvc.symex import LoopSpec, default_attr_kind, select_n
from pyvc.values import (
    AttrEntry, HDict, HList, HRecSeq, HSeq, RaiseExc, Ref, SBytes, SInt, SOpaque, _default_term, bool_term, int_term,
    sort_of_kind,
)
from contracts.message import M, new_message, generic_payload
from contracts.message_glue import DoAttributes

H = "pyrtcm.rtcmhelpers."
I = z3.IntSort()


def helper_lists():
    """The two literal name lists in parse_msm, read from its AST."""
    fi = extract.func(H + "parse_msm")
    lists = [n for n in ast.walk(fi.node) if isinstance(n, ast.List) and n.elts and all(isinstance(e, ast.Constant) and isinstance(e.value, str) for e in n.elts)]
    lists = sorted(lists, key=lambda n: n.lineno)
    return [[e.value for e in l.elts] for l in lists]


def msm_groups(d):
    sat, cell = [], []
    for k, v in d.items():
        if isinstance(v, tuple) and v[0] == "NSat":
            sat += list(v[1])
        if isinstance(v, tuple) and v[0] == "NCell":
            cell += list(v[1])
    return sat, cell


def seq_fun(tag, kind):
    return z3.Function(f"SpecSeq_{tag}", I, z3.ArraySort(I, sort_of_kind(kind)))


def seq_base(tag, kind):
    return seq_fun(tag, kind)(0) == z3.K(I, _default_term(kind))


def seq_unfold(tag, kind, k, src_at):
    """SpecSeq(k+1) = SpecSeq(k) with item k := source[k+1]   ('one entry per satellite, in index order')."""
    f = seq_fun(tag, kind)
    return f(k + 1) == z3.Store(f(k), k, src_at(k + 1))


def seq_lemmas():
    """SpecSeq(n)[j] == source(j+1) for 0 <= j < n  (induction on n; source uninterpreted)."""
    from pyvc.state import Obligation
    out = []
    for kind in ("int", "str", "float"):
        tag = f"lemma_{kind}"
        f = seq_fun(tag, kind)
        src = z3.Function(f"lem_src_{kind}", I, sort_of_kind(kind))
        n, j = z3.Ints("n j")
        ih = z3.Implies(z3.And(j >= 0, j < n), z3.Select(f(n), j) == src(j + 1))
        out.append(Obligation(f"lemma.specseq.{kind}.entry_j_is_attribute_j_plus_1.step", [n >= 0, seq_unfold(tag, kind, n, src), ih],
                              z3.Implies(z3.And(j >= 0, j < n + 1), z3.Select(f(n + 1), j) == src(j + 1)), kind="lemma"))
    return out


def msm_message(st, ident, d):
    """A constructed message of MSM type `ident` satisfying the class invariant."""
    hdr = DoAttributes.header_of(ident)
    tail = generic_payload(st, "tail")
    msg = new_message(st, SBytes([hdr, tail]), immutable=True)
    o = st.obj(msg)
    o.symbolic_pre = False
    nsat, ncell = z3.Int("NSat"), z3.Int("NCell")
    st.assume(nsat >= 0, ncell >= 0)
    o.attrs[("NSat", 0)] = AttrEntry("int", SInt(nsat), True)
    o.attrs[("NCell", 0)] = AttrEntry("int", SInt(ncell), True)
    o.attrs[("NSig", 0)] = AttrEntry("int", SInt(z3.Int("NSig")), True)
    for k, v in d.items():
        if not isinstance(v, tuple):
            kind = default_attr_kind(k)
            from pyvc.symex import fresh_of_kind
            o.attrs[(k, 0)] = AttrEntry(kind, fresh_of_kind(kind, f"attr_{k}") if k != "DF396" else SInt(z3.Int("attr_DF396")), True)
    sat, cell = msm_groups(d)
    arrays = {}
    for names, cnt in ((sat, nsat), (cell, ncell)):
        for x in names:
            kind = default_attr_kind(x)
            val = z3.Const(f"attr_{x}", z3.ArraySort(I, sort_of_kind(kind)))
            dom = z3.Const(f"dom_{x}", z3.ArraySort(I, z3.BoolSort()))
            o.attrs[(x, 1)] = AttrEntry(kind, val, dom)
            arrays[x] = (kind, val, dom, cnt)
    return msg, nsat, ncell, arrays


@register
class ParseMsm(Contract):
    qualname = H + "parse_msm"

    def instances(self, tier):
        _, m, _ = __import__("contracts.message", fromlist=["payload_tables"]).payload_tables()
        out = [{"identity": i} for i in m]
        out += [{"identity": i, "other": True} for i in ("1005", "1070", "1078", "1230", "4095", "4076_201", "1236", "12", "108")]
        return out

    def verify(self, eng, inst):
        fi = extract.func(self.qualname)
        ident = inst["identity"]
        Q = self.qualname
        st = State()
        canary = []
        if inst.get("other"):
            # any other message - defined non-MSM, unknown, or a number merely reserved for MSM: a stub or a decoded message
            # without MSM counters; the helper must return None and must not raise
            hdr = DoAttributes.header_of(ident)
            tail = generic_payload(st, "tail")
            msg = new_message(st, SBytes([hdr, tail]), immutable=True)
            st.obj(msg).symbolic_pre = False
            st.obj(msg).attrs[("DF002", 0)] = AttrEntry("str", ident, True)
            for s, out in eng.exec_function(fi, st, {"msg": msg}, contract=self):
                canary.append(s)
                eng.oblige(f"{Q}.post.returns_None_without_raising_for_non_MSM[{ident}]", s,
                           z3.BoolVal(not isinstance(out, RaiseExc) and out.v is None), note=repr(out))
            return canary
        d = DoAttributesLookup(ident)
        msg, nsat, ncell, arrays = msm_message(st, ident, d)
        satlist, celllist = helper_lists()
        prefix = ident[0:3]
        epoch = extract.module("pyrtcm.rtcmtypes_core").GNSSMAP[prefix][1]
        st.writes = set()
        for x, (kind, val, dom, cnt) in arrays.items():
            st.assume(seq_base(f"{x}", kind))

        def mk_spec(listnames, cnt, var, lname):
            present = [x for x in listnames if x in arrays and arrays[x][3] is cnt]

            def install(eng_, s, k):
                # the list is only mutated (append), never re-bound: havoc the heap object, by substitution of the invariant
                ref = s.env[lname]
                h = HRecSeq(z3.simplify(k - 1), tuple(present),
                            {x: seq_fun(x, arrays[x][0])(k - 1) for x in present}, {x: arrays[x][0] for x in present})
                s.heap[ref.oid] = h

            def inv(eng_, s, k):
                h = s.obj(s.env[lname])
                if isinstance(h, HList):
                    if h.items:
                        return [("list_shape", z3.BoolVal(False))]
                    return [("entries_so_far", k == 1)]
                ok_keys = h.keys is None or list(h.keys) == present
                conds = [h.n == k - 1]
                if h.keys is not None:
                    conds += [h.arrs[x] == seq_fun(x, arrays[x][0])(k - 1) for x in h.keys if x in arrays]
                return [("one_entry_per_index_with_the_type's_fields", z3.BoolVal(ok_keys)), ("entries_so_far", z3.And(*conds))]

            def facts(eng_, s, k):
                fs = []
                for x in arrays:
                    kind, val, dom, c = arrays[x]
                    fs.append(z3.Select(dom, k) == z3.And(k >= 1, k <= c))  # class invariant, instantiated at the loop index
                    if c is cnt:
                        fs.append(seq_unfold(x, kind, k - 1, lambda t, val=val: z3.Select(val, t)))
                return fs
            return LoopSpec(invariant=inv, havoc=install, facts=facts), present

        spec_s, present_s = mk_spec(satlist, nsat, "i", "msmsats")
        spec_c, present_c = mk_spec(celllist, ncell, "i", "msmcells")
        self.loops = {0: spec_s, 2: spec_c}
        for s, out in eng.exec_function(fi, st, {"msg": msg}, contract=self):
            if isinstance(out, RaiseExc):
                eng.oblige(f"{Q}.raises_nothing[{ident}]", s, False, kind="exc", note=f"raises {out.cls.__name__}: {out.msg}")
                continue
            canary.append(s)
            r = out.v
            if not (isinstance(r, tuple) and len(r) == 3 and all(isinstance(x, Ref) for x in r)):
                eng.oblige(f"{Q}.post.returns_meta_sats_cells[{ident}]", s, False, note=repr(r))
                continue
            meta, sats, cells = (s.obj(x) for x in r)
            o = s.obj(msg)
            gn = extract.module("pyrtcm.rtcmtypes_core").GNSSMAP[prefix][0]
            okm = isinstance(meta, HDict) and meta.d.get("identity") == ident and meta.d.get("gnss") == gn
            eng.oblige(f"{Q}.post.meta_identity_and_constellation[{ident}]", s, z3.BoolVal(bool(okm)), note=str(getattr(meta, "d", None))[:120])
            if okm:
                same = lambda a, b: a is b
                eng.oblige(f"{Q}.post.meta_epoch_is_constellation_epoch_field[{ident}]", s,
                           z3.BoolVal(same(meta.d.get("epoch"), o.attrs[(epoch, 0)].val) and same(meta.d.get("station"), o.attrs[("DF003", 0)].val)
                                      and same(meta.d.get("sats"), o.attrs[("NSat", 0)].val) and same(meta.d.get("cells"), o.attrs[("NCell", 0)].val)))
            for nm, h, cnt, present in (("satellite", sats, nsat, present_s), ("cell", cells, ncell, present_c)):
                if isinstance(h, HList) and not h.items:
                    g = cnt <= 0
                elif isinstance(h, HRecSeq):
                    g = z3.And(h.n == cnt, z3.BoolVal(list(h.keys or present) == present),
                               *[h.arrs[x] == seq_fun(x, arrays[x][0])(cnt) for x in (h.keys or ())])
                else:
                    g = z3.BoolVal(False)
                eng.oblige(f"{Q}.post.one_{nm}_entry_per_index_equal_to_indexed_attributes[{ident}]", s, g, observe={"NSat": nsat, "NCell": ncell})
            eng.oblige(f"{Q}.frame.message_not_written[{ident}]", s, z3.BoolVal(not any(w[0] == msg.oid for w in s.writes)), kind="frame")
        return canary


def DoAttributesLookup(ident):
    from contracts.message import GetDict
    return GetDict().lookup(ident)


def helper_list_lemma():
    """The helper's literal lists cover the satellite / cell leaves of every MSM definition (nothing decoded is omitted)."""
    from contracts.message import payload_tables
    _, m, _ = payload_tables()
    out = []
    try:
        satlist, celllist = helper_lists()
    except Exception as e:  # noqa
        return [("tables.helper_lists_found", False, {"problem": repr(e)})]
    for ident, d in m.items():
        sat, cell = msm_groups(d)
        miss = [x for x in sat if x not in satlist] + [x for x in cell if x not in celllist]
        out.append((f"tables.helper_lists_cover_msm_leaves[{ident}]", not miss, {"missing": miss}))
    return out


# ---------------------------------------------------------------------------------------
@register
class Parse4076_201(Contract):
    qualname = H + "parse_4076_201"

    def instances(self, tier):
        from contracts.message import header_chunks
        # every other identity (all 4095 message numbers and the 255 other 4076 sub-types): returns None, raises nothing
        return [{"layers": n} for n in (1, 2, 3, 4)] + [{"other_chunk": list(c)} for c in header_chunks(16)]

    def verify(self, eng, inst):
        fi = extract.func(self.qualname)
        Q = self.qualname
        st = State()
        canary = []
        if "other_chunk" in inst:
            from contracts.message import all_headers
            from spec.ident import ident as spec_ident
            a, b = inst["other_chunk"]
            for hdr in list(all_headers())[a:b]:
                ident = spec_ident(hdr)
                if ident == "4076_201":
                    continue
                st = State()
                msg = new_message(st, SBytes([hdr[:3] if ident.startswith("4076") else hdr[:2], generic_payload(st, "tail")]), immutable=True)
                st.obj(msg).symbolic_pre = False
                for s, out in eng.exec_function(fi, st, {"msg": msg}, contract=self):
                    canary.append(s)
                    eng.oblige(f"{Q}.post.returns_None_without_raising_for_other_messages[{ident}]", s,
                               z3.BoolVal(not isinstance(out, RaiseExc) and out.v is None), note=repr(out))
            return canary
        nl = inst["layers"]  # IDF035 is a 2-bit field: IDF035+1 in 1..4, the outer loop is unrolled completely
        msg = new_message(st, SBytes([DoAttributes.header_of("4076_201"), generic_payload(st, "tail")]), immutable=True)
        o = st.obj(msg)
        o.symbolic_pre = False
        o.attrs[("IDF035", 0)] = AttrEntry("int", nl - 1, True)
        coeffs = extract.module("pyrtcm.rtcmtypes_core").COEFFS
        hk = default_attr_kind("IDF036")
        h_val = z3.Const("attr_IDF036", z3.ArraySort(I, sort_of_kind(hk)))
        o.attrs[("IDF036", 1)] = AttrEntry(hk, h_val, z3.Const("dom_IDF036", z3.ArraySort(I, z3.BoolSort())))
        st.assume(*[z3.Select(o.attrs[("IDF036", 1)].dom, z3.IntVal(l)) for l in range(1, nl + 1)])
        cnt = {}
        arrs = {}
        for _, (field, cname) in coeffs.items():
            kind = default_attr_kind(field)
            val = z3.Const(f"attr_{field}", z3.ArraySort(I, z3.ArraySort(I, sort_of_kind(kind))))
            dom = z3.Const(f"dom_{field}", z3.ArraySort(I, z3.ArraySort(I, z3.BoolSort())))
            o.attrs[(field, 2)] = AttrEntry(kind, val, dom)
            cnt[field] = z3.Function(f"ncoef_{field}", I, I)
            arrs[field] = (kind, val, dom, cname)
            for l in range(1, nl + 1):
                st.assume(cnt[field](l) >= 0, seq_base(f"{field}_{l}", kind))
        st.writes = set()

        def cur(s):
            lyr = norm(s.env["lyr"])
            field = norm(s.env["field"])
            coeff = norm(s.env["coeff"])
            lst = s.obj(s.obj(s.env["hmc"]).d[lyr]).d[coeff]
            return lyr, field, lst

        def install(eng_, s, k):
            lyr, field, lst = cur(s)
            kind = arrs[field][0]
            from pyvc.values import fresh_name
            i = z3.Int(fresh_name("coeffs_read_so_far"))
            s.assume(i >= 0, i <= cnt[field](lyr + 1))
            s.heap[lst.oid] = HSeq(i, seq_fun(f"{field}_{lyr + 1}", kind)(i), kind)
            return SInt(i)

        def inv(eng_, s, k):
            lyr, field, lst = cur(s)
            kind = arrs[field][0]
            h = s.obj(lst)
            if isinstance(h, HList):
                h = HSeq.from_list(h.items, kind)
            i = int_term(s.env["i"])
            eof = ops.truth(s, s.env["eof"])
            return [("loop_is_entered_only_while_not_eof", z3.Not(bool_term(eof)) if not isinstance(eof, bool) else z3.BoolVal(not eof)),
                    ("i_counts_coefficients_read", z3.And(h.n == i, i >= 0, i <= cnt[field](lyr + 1))),
                    ("list_holds_the_first_i_coefficients_of_the_layer", h.arr == seq_fun(f"{field}_{lyr + 1}", kind)(i))]

        def facts(eng_, s, k):
            lyr, field, lst = cur(s)
            kind, val, dom, _ = arrs[field]
            i = int_term(s.env["i"])
            l1 = z3.IntVal(lyr + 1)
            return [select_n(dom, [l1, i + 1]) == z3.And(i + 1 >= 1, i + 1 <= cnt[field](l1)),  # class invariant at the probed index
                    seq_unfold(f"{field}_{lyr + 1}", kind, i, lambda t: select_n(val, [l1, t]))]

        self.loops = {2: LoopSpec(invariant=inv, kinds={"i": install, "eof": "bool"}, facts=facts)}
        for s, out in eng.exec_function(fi, st, {"msg": msg}, contract=self):
            if isinstance(out, RaiseExc):
                eng.oblige(f"{Q}.raises_nothing[layers={nl}]", s, False, kind="exc", note=f"raises {out.cls.__name__}: {out.msg}")
                continue
            canary.append(s)
            r = out.v
            hm = s.obj(r) if isinstance(r, Ref) else None
            if not isinstance(hm, HDict) or sorted(hm.d) != list(range(nl)):
                eng.oblige(f"{Q}.post.one_entry_per_layer[layers={nl}]", s, False, note=repr(getattr(hm, "d", r))[:100])
                continue
            eng.oblige(f"{Q}.post.one_entry_per_layer[layers={nl}]", s, True)
            for l in range(nl):
                ld = s.obj(hm.d[l])
                keys_ok = isinstance(ld, HDict) and list(ld.d) == ["Layer Height"] + [c for _, (f, c) in coeffs.items()]
                if not keys_ok:
                    eng.oblige(f"{Q}.post.layer_record_shape[layers={nl},l={l}]", s, False, note=repr(getattr(ld, "d", None))[:100])
                    continue
                hv = ld.d["Layer Height"]
                eng.oblige(f"{Q}.post.layer_height_is_IDF036_of_that_layer[layers={nl},l={l}]", s,
                           value_term(hk, hv) == z3.Select(h_val, z3.IntVal(l + 1)))
                for _, (field, cname) in coeffs.items():
                    kind = arrs[field][0]
                    hs = s.obj(ld.d[cname])
                    if isinstance(hs, HList):
                        hs = HSeq.from_list(hs.items, kind)
                    n_l = cnt[field](z3.IntVal(l + 1))
                    eng.oblige(f"{Q}.post.exactly_the_coefficients_decoded_for_the_layer_in_order[layers={nl},l={l},{field}]", s,
                               z3.And(hs.n == n_l, hs.arr == seq_fun(f"{field}_{l + 1}", kind)(n_l)))
            eng.oblige(f"{Q}.frame.message_not_written[layers={nl}]", s, z3.BoolVal(not any(w[0] == msg.oid for w in s.writes)), kind="frame")
        return canary


def value_term(kind, v):
    v = norm(v)
    if kind == "int":
        return int_term(v)
    if isinstance(v, SOpaque):
        return v.t
    if kind == "str" and isinstance(v, str):
        return z3.StringVal(v)
    raise ValueError(v)
