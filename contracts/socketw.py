"""Contracts: pyrtcm.socketwrapper.SocketWrapper, plain (non-chunked) mode (DESIGN C11).

Ghost state: net = everything the peer ever sends; rpos = bytes handed over by recv() so far;
dpos = bytes delivered to the caller so far.  Class invariant (plain mode):
        _buffer == net[dpos : rpos]
Every schedule of segment sizes, timeouts and OS errors is one resolution of the
nondeterminism of the trusted recv() contract."""
import z3

from pyvc import extract, ops
from pyvc.contract import Contract, register
from pyvc.ops import bytes_len, norm
from pyvc.state import State, byte_at, feasible
from pyvc.symex import LoopSpec
from pyvc.values import ByteArr, HObject, RaiseExc, Ref, SBool, SBytes, SInt, View, as_sbytes, bool_term, int_term

W = "pyrtcm.socketwrapper.SocketWrapper"
NEXTLF_NET = z3.Function("NextLF_net", z3.IntSort(), z3.IntSort())
NET_END = z3.Int("net_end")  # the peer's stream is finite: everything it ever sends is net[0:net_end] (termination variants, C04)


def new_socket(st, name="net", faultfree=False):
    o = HObject("ext.Socket")
    import socket as pysocket
    o.pycls = pysocket.socket
    rpos = z3.Int(f"{name}_rpos0")
    st.assume(rpos >= 0, rpos <= NET_END)
    # faultfree: the peer sends all of net[0:net_end] and then closes; no timeout, no OS error (C02 over socket-backed streams)
    o.fields.update({"arr": ByteArr.get(name), "rpos": rpos, "nrecv": 0, "last": "none", "faultfree": faultfree})
    return st.alloc(o)


@register
class SockRecv(Contract):
    qualname = "ext.Socket.recv"
    trusted = ("socket.recv(bufsize): returns d = net[rpos:rpos+|d|], 0 <= |d| <= bufsize (|d| = 0 only when the peer has closed), "
               "or raises OSError / TimeoutError having consumed nothing; the peer's stream is finite (rpos <= net_end)")

    def apply(self, eng, st, selfv, args, kwargs, site):
        n = int_term(args[0])
        f = st.obj(selfv).fields
        arr, rpos = f["arr"], f["rpos"]
        # recv(0) returns b"" without the peer having closed: a caller that may pass 0 mistakes "nothing requested" for
        # end of stream and stalls (C11/C12 completeness)
        eng.oblige("ext.Socket.recv.pre.bufsize_positive", st, n >= 1, kind="pre", site=site, observe={"bufsize": n})
        outs = []
        for kind in (("data", "closed") if f.get("faultfree") else ("data", "closed", "OSError", "TimeoutError")):
            s = st.fork()
            fs = s.obj(selfv).fields
            fs["nrecv"] = f["nrecv"] + 1
            fs["last"] = kind
            if kind == "data":
                d = z3.Int(f"seg{f['nrecv']}_{s.next_oid[0]}")
                s.next_oid[0] += 1
                s.assume(d >= 1, d <= n, rpos + d <= NET_END)
                if not feasible(s.pc):
                    continue
                fs["rpos"] = z3.simplify(rpos + d)
                s.writes.add((selfv.oid, "rpos"))
                outs.append((s, SBytes([View(arr, rpos, fs["rpos"])])))
            elif kind == "closed":
                if f.get("faultfree"):
                    s.assume(rpos == NET_END)  # a fault-free peer closes only after having sent everything
                    if not feasible(s.pc):
                        continue
                outs.append((s, b""))
            else:
                outs.append((s, RaiseExc(OSError if kind == "OSError" else TimeoutError, kind)))
        return outs


def new_wrapper(st, sock, chunked=False):
    o = HObject(W)
    o.pycls = extract.module("pyrtcm.socketwrapper").SocketWrapper
    sf = st.obj(sock).fields
    dpos = z3.Int("dpos0")
    st.assume(dpos >= 0, dpos <= sf["rpos"])
    enc = z3.Int("encoding")
    bufsize = z3.Int("bufsize")
    st.assume(bufsize >= 1)
    if not chunked:
        st.assume(enc % 2 == 0)
    o.fields.update({"_socket": sock, "_bufsize": SInt(bufsize), "_encoding": SInt(enc),
                     "_buffer": SBytes([View(sf["arr"], dpos, sf["rpos"])], mutable=True), "_partial": b""})
    st.ghost["dpos"] = SInt(dpos)
    return st.alloc(o)


def buffer_is(st, wrapper, arr, lo, hi):
    """Bool term: _buffer is exactly net[lo:hi]."""
    from contracts.reader import is_slice
    b = st.obj(wrapper).fields["_buffer"]
    return is_slice(b, arr, lo, hi)


@register
class WRecv(Contract):
    qualname = W + "._recv"

    # plain mode.  True  => _buffer' = _buffer ++ net[rpos:rpos'], rpos < rpos' <= rpos + bufsize
    #              False => nothing changed (peer closed, OSError or TimeoutError): no buffered data is lost
    def apply(self, eng, st, selfv, args, kwargs, site):
        f = st.obj(selfv).fields
        sock = f["_socket"]
        outs = []
        for s, data in eng.call_qual("ext.Socket.recv", st, sock, [f["_bufsize"]], {}, site):
            if isinstance(data, RaiseExc) or (isinstance(data, bytes) and len(data) == 0):
                outs.append((s, False))
                continue
            fs = s.obj(selfv).fields
            fs["_buffer"] = ops.binop(s, __import__("ast").Add, fs["_buffer"], data)
            s.writes.add((selfv.oid, "_buffer"))
            outs.append((s, True))
        return outs  # (callers in this project use plain mode; chunked mode is verified on _recv itself)

    def verify(self, eng, inst):
        fi = extract.func(self.qualname)
        st = State()
        sock = new_socket(st)
        selfv = new_wrapper(st, sock)
        sf = st.obj(sock).fields
        arr, r0 = sf["arr"], sf["rpos"]
        d0 = int_term(st.ghost["dpos"])
        bufsize = int_term(st.obj(selfv).fields["_bufsize"])
        st.writes = set()
        canary = []
        for s, out in eng.exec_function(fi, st, {"self": selfv}, contract=self):
            if isinstance(out, RaiseExc):
                eng.oblige(f"{self.qualname}.raises_nothing", s, False, kind="exc", note=f"raises {out.cls.__name__}")
                continue
            canary.append(s)
            r1 = s.obj(sock).fields["rpos"]
            last = s.obj(sock).fields["last"]
            res = norm(out.v)
            obs = {"segment": r1 - r0, "bufsize": bufsize}
            if res is True:
                eng.oblige(f"{self.qualname}.post.true_means_segment_appended", s,
                           z3.And(buffer_is(s, selfv, arr, d0, r1), r1 > r0, r1 <= r0 + bufsize, z3.BoolVal(last == "data")), observe=obs, note=last)
            elif res is False:
                eng.oblige(f"{self.qualname}.post.false_means_nothing_changed", s,
                           z3.And(buffer_is(s, selfv, arr, d0, r0), r1 == r0, z3.BoolVal(last != "data")), observe=obs, note=last)
            else:
                eng.oblige(f"{self.qualname}.post.returns_bool", s, False, note=repr(res))
        return canary


@register
class WRead(Contract):
    qualname = W + ".read"

    # requires num >= 0, invariant.  result = net[dpos : dpos+|result|], |result| in {0, num}, dpos' = dpos+|result|,
    # invariant again; |result| < num only after a failed receive (peer closed / timeout / OS error), and then nothing is lost
    def apply(self, eng, st, selfv, args, kwargs, site):
        num = int_term(args[0])
        f = st.obj(selfv).fields
        sock = f["_socket"]
        sf = st.obj(sock).fields
        arr = sf["arr"]
        d0 = int_term(st.ghost["dpos"])
        eng.oblige(f"{self.qualname}.pre.num_nonnegative", st, num >= 0, kind="pre", site=site)
        tag = st.next_oid[0]
        st.next_oid[0] += 1
        r1 = z3.Int(f"rpos_after_read_{tag}")
        st.assume(r1 >= sf["rpos"], r1 <= NET_END)
        outs = []
        # full read
        s = st.fork()
        s.assume(r1 >= d0 + num)
        s.obj(sock).fields["rpos"] = r1
        s.obj(selfv).fields["_buffer"] = SBytes([View(arr, z3.simplify(d0 + num), r1)], mutable=True)
        s.ghost["dpos"] = SInt(z3.simplify(d0 + num))
        outs.append((s, norm(SBytes([View(arr, d0, z3.simplify(d0 + num))]))))
        # failed receive
        s2 = st.fork()
        s2.assume(r1 < d0 + num)
        s2.obj(sock).fields["rpos"] = r1
        s2.obj(sock).fields["last"] = "failed"
        s2.obj(selfv).fields["_buffer"] = SBytes([View(arr, d0, r1)], mutable=True)
        if sf.get("faultfree"):
            s2.assume(r1 == NET_END)  # read.post.faultfree_short_only_when_the_peer_stream_is_exhausted
        if feasible(s2.pc):
            outs.append((s2, b""))
        return outs

    def instances(self, tier):
        return [None, "faultfree"]

    def verify(self, eng, inst):
        fi = extract.func(self.qualname)
        st = State()
        sock = new_socket(st, faultfree=(inst == "faultfree"))
        selfv = new_wrapper(st, sock)
        sf = st.obj(sock).fields
        arr, r0 = sf["arr"], sf["rpos"]
        d0 = int_term(st.ghost["dpos"])
        num = z3.Int("num")
        st.assume(num >= 0)

        def havoc(eng_, s):
            s.obj(sock).fields["rpos"] = z3.Int("rpos_at_loop_head")
            s.obj(sock).fields["last"] = "data"
            s.obj(selfv).fields["_buffer"] = SBytes([View(arr, d0, z3.Int("rpos_at_loop_head"))], mutable=True)

        def inv(eng_, s, k):
            r = s.obj(sock).fields["rpos"]
            return [("buffer_is_undelivered_received_bytes", buffer_is(s, selfv, arr, d0, r)), ("rpos_monotone", z3.And(r >= r0, r <= NET_END))]

        # termination (C04): an iteration that goes round again has taken at least one byte off the peer's finite stream
        self.loops = {0: LoopSpec(invariant=inv, havoc=havoc, variant=lambda eng_, s: NET_END - s.obj(sock).fields["rpos"])}
        canary = []
        for s, out in eng.exec_function(fi, st, {"self": selfv, "num": SInt(num)}, contract=self):
            if isinstance(out, RaiseExc):
                eng.oblige(f"{self.qualname}.raises_nothing", s, False, kind="exc", note=f"raises {out.cls.__name__}")
                continue
            canary.append(s)
            from contracts.reader import is_slice
            r1 = s.obj(sock).fields["rpos"]
            res = as_sbytes(norm(out.v))
            n = bytes_len(res)
            obs = {"num": num, "returned": n, "received": r1 - d0}
            eng.oblige(f"{self.qualname}.post.result_is_next_bytes_of_peer_stream", s, is_slice(res, arr, d0, d0 + n), observe=obs)
            eng.oblige(f"{self.qualname}.post.all_or_nothing", s, z3.Or(n == num, n == 0), observe=obs)
            eng.oblige(f"{self.qualname}.post.never_more_than_requested", s, n <= num, observe=obs)
            eng.oblige(f"{self.qualname}.post.invariant_buffer_is_rest", s, buffer_is(s, selfv, arr, d0 + n, r1), observe=obs)
            last = s.obj(sock).fields["last"]
            eng.oblige(f"{self.qualname}.post.short_only_after_failed_receive", s,
                       z3.Implies(n < num, z3.BoolVal(last in ("closed", "OSError", "TimeoutError"))), observe=obs, note=last)
            eng.oblige(f"{self.qualname}.post.result_is_immutable_bytes", s, z3.BoolVal(not (isinstance(out.v, SBytes) and out.v.mutable)))
            if inst == "faultfree":
                # over a peer that sends everything and then closes, read(num) is min-or-nothing: all num bytes whenever that many
                # remain, b"" only when fewer remain (and then everything the peer sent has been received)
                eng.oblige(f"{self.qualname}.post.faultfree_full_read_whenever_enough_remains", s, z3.Implies(NET_END - d0 >= num, n == num), observe=obs)
                eng.oblige(f"{self.qualname}.post.faultfree_short_only_when_the_peer_stream_is_exhausted", s, z3.Implies(n < num, r1 == NET_END), observe=obs)
        return canary


@register
class WReadline(Contract):
    qualname = W + ".readline"

    # result = net[dpos:dpos'], either ending at the first 0x0A at or after dpos (and containing no other), or
    # containing no 0x0A at all when a one-byte read came back empty
    def apply(self, eng, st, selfv, args, kwargs, site):
        """Caller view (used by the refinement lemmas): exactly the terms verify() discharges."""
        f = st.obj(selfv).fields
        sock = f["_socket"]
        sf = st.obj(sock).fields
        arr = sf["arr"]
        d0 = int_term(st.ghost["dpos"])
        nl = NEXTLF_NET(d0)
        tag = st.next_oid[0]
        st.next_oid[0] += 1
        d1, r1 = z3.Int(f"dpos_after_readline_{tag}"), z3.Int(f"rpos_after_readline_{tag}")
        st.assume(nl >= d0, d1 >= d0, d1 <= r1, r1 >= sf["rpos"], r1 <= NET_END)
        outs = []
        for kind in ("through_LF", "stopped"):
            s = st.fork()
            if kind == "through_LF":
                s.assume(d1 == nl + 1, byte_at(s, arr, nl) == 0x0A)
            else:
                s.assume(d1 <= nl)
                s.obj(sock).fields["last"] = "failed"
                if sf.get("faultfree"):
                    s.assume(d1 == NET_END, r1 == NET_END)  # readline.post.faultfree_line_through_first_LF_else_the_rest
            if sf.get("faultfree") and kind == "through_LF":
                s.assume(nl < NET_END)
            if not feasible(s.pc):
                continue
            s.obj(sock).fields["rpos"] = r1
            s.obj(selfv).fields["_buffer"] = SBytes([View(arr, d1, r1)], mutable=True)
            s.ghost["dpos"] = SInt(d1)
            outs.append((s, norm(SBytes([View(arr, d0, d1)]))))
        return outs

    def instances(self, tier):
        return [None, "faultfree"]

    def verify(self, eng, inst):
        fi = extract.func(self.qualname)
        st = State()
        sock = new_socket(st, faultfree=(inst == "faultfree"))
        selfv = new_wrapper(st, sock)
        sf = st.obj(sock).fields
        arr = sf["arr"]
        d0 = int_term(st.ghost["dpos"])
        nl = NEXTLF_NET(d0)
        # NextLF_net(d0): first 0x0A at or after d0 (instantiated below at the bytes the loop reads)
        head_d = z3.Int("dpos_at_loop_head")

        def havoc(eng_, s):
            r = z3.Int("rpos_at_loop_head")
            s.assume(r >= head_d, r <= NET_END)
            s.obj(sock).fields["rpos"] = r
            s.obj(selfv).fields["_buffer"] = SBytes([View(arr, head_d, r)], mutable=True)
            s.ghost["dpos"] = SInt(head_d)

        def line_kind(eng_, s, k):
            return SBytes([View(arr, d0, head_d)])

        def inv(eng_, s, k):
            from contracts.reader import is_slice
            d = int_term(s.ghost["dpos"])
            return [("line_is_bytes_delivered_so_far", is_slice(s.env["line"], arr, d0, d)),
                    ("no_LF_in_line_yet", z3.And(d >= d0, d <= nl))]

        def facts(eng_, s, k):
            # definitional instances for 'first 0x0A': the byte at NextLF is 0x0A, and the byte about to be read is not one before it
            return [nl >= d0, byte_at(s, arr, nl) == 0x0A, z3.Implies(head_d < nl, byte_at(s, arr, head_d) != 0x0A)]

        # termination (C04): every iteration that goes round again has delivered one more byte of the peer's finite stream
        self.loops = {0: LoopSpec(invariant=inv, havoc=havoc, kinds={"line": line_kind}, facts=facts,
                                  variant=lambda eng_, s: NET_END - int_term(s.ghost["dpos"]))}
        st.assume(nl >= d0)
        canary = []
        for s, out in eng.exec_function(fi, st, {"self": selfv}, contract=self):
            if isinstance(out, RaiseExc):
                eng.oblige(f"{self.qualname}.raises_nothing", s, False, kind="exc", note=f"raises {out.cls.__name__}")
                continue
            canary.append(s)
            from contracts.reader import is_slice
            d1 = int_term(s.ghost["dpos"])
            eng.oblige(f"{self.qualname}.post.line_is_next_bytes_of_peer_stream", s, is_slice(out.v, arr, d0, d1), observe={"len": d1 - d0})
            last = s.obj(sock).fields["last"]
            eng.oblige(f"{self.qualname}.post.ends_at_first_LF_or_stopped_on_empty_read", s,
                       z3.Or(d1 == nl + 1, z3.And(d1 <= nl, z3.BoolVal(last in ("closed", "OSError", "TimeoutError", "failed")))),
                       observe={"len": d1 - d0, "first_LF_at": nl - d0}, note=last)
            # the class invariant holds again afterwards (the next read()/readline() may assume it; refinement lemmas below)
            r1 = s.obj(sock).fields["rpos"]
            eng.oblige(f"{self.qualname}.post.invariant_buffer_is_rest", s,
                       z3.And(buffer_is(s, selfv, arr, d1, r1), d1 <= r1, r1 <= NET_END), observe={"len": d1 - d0})
            if inst == "faultfree":
                eng.oblige(f"{self.qualname}.post.faultfree_line_through_first_LF_else_the_rest", s,
                           z3.If(nl < NET_END, d1 == nl + 1, d1 == NET_END), observe={"len": d1 - d0, "first_LF_at": nl - d0})
        return canary


@register
class WInit(Contract):
    qualname = W + ".__init__"

    # stores the socket and options, empty buffer, one initial receive; invariant holds with dpos = rpos0
    def apply(self, eng, st, selfv, args, kwargs, site):
        sock = args[0]
        o = HObject(W)
        o.pycls = extract.module("pyrtcm.socketwrapper").SocketWrapper
        sf = st.obj(sock).fields
        r0 = sf["rpos"]
        tag = st.next_oid[0]
        st.next_oid[0] += 1
        r1 = z3.Int(f"rpos_after_init_{tag}")
        st.assume(r1 >= r0, r1 <= NET_END)
        sf["rpos"] = r1
        o.fields.update({"_socket": sock, "_bufsize": kwargs.get("bufsize", args[2] if len(args) > 2 else 4096),
                         "_encoding": kwargs.get("encoding", args[1] if len(args) > 1 else 0),
                         "_buffer": SBytes([View(sf["arr"], r0, r1)], mutable=True), "_partial": b""})
        st.ghost["dpos"] = SInt(r0)
        return [(st, st.alloc(o))]

    def verify(self, eng, inst):
        fi = extract.func(self.qualname)
        st = State()
        sock = new_socket(st)
        sf = st.obj(sock).fields
        arr, r0 = sf["arr"], sf["rpos"]
        o = HObject(W)
        o.pycls = extract.module("pyrtcm.socketwrapper").SocketWrapper
        selfv = st.alloc(o)
        enc, bufsize = z3.Int("encoding"), z3.Int("bufsize")
        st.assume(enc % 2 == 0, bufsize >= 1)
        st.ghost["dpos"] = SInt(r0)
        canary = []
        for s, out in eng.exec_function(fi, st, {"self": selfv, "sock": sock, "encoding": SInt(enc), "bufsize": SInt(bufsize)}, contract=self):
            if isinstance(out, RaiseExc):
                eng.oblige(f"{self.qualname}.raises_nothing", s, False, kind="exc", note=f"raises {out.cls.__name__}")
                continue
            canary.append(s)
            f = s.obj(selfv).fields
            r1 = s.obj(sock).fields["rpos"]
            eng.oblige(f"{self.qualname}.post.invariant_established", s, buffer_is(s, selfv, arr, r0, r1))
            eng.oblige(f"{self.qualname}.post.options_stored", s, z3.BoolVal(f.get("_socket") == sock and "_bufsize" in f and "_encoding" in f))
        return canary


# ---------------------------------------------------------------------------------------
# Refinement lemmas (C11, last sentence: "the reader over a socket returns the same messages as over a file holding the same
# bytes").  RTCMReader is verified against the *stream* contract ext.Stream.read / readline of contracts/reader.py only.  These
# lemmas show, over the contracts, that every outcome the SocketWrapper contracts allow is an outcome the stream contract allows
# under the ghost mapping  src := net, pos := dpos, end := net_end  - so every behaviour of the reader over a socket is one of
# the behaviours already verified - and that the class invariant holds again, so the argument repeats for the next call.
def refinement_lemmas():
    from pyvc.contract import REGISTRY
    from pyvc.symex import Engine
    from contracts.reader import is_slice
    eng = Engine(REGISTRY)
    # ---- read(num)
    st = State()
    sock = new_socket(st)
    w = new_wrapper(st, sock)
    arr = st.obj(sock).fields["arr"]
    d0 = int_term(st.ghost["dpos"])
    num = z3.Int("num")
    st.assume(num >= 0)
    Q = "lemma.refines.SocketWrapper.read"
    outs = REGISTRY[W + ".read"].apply(eng, st, w, [SInt(num)], {}, None)
    eng.cover(f"{Q}.has_outcomes", st, z3.BoolVal(len(outs) == 2))
    for s, v in outs:
        n = bytes_len(as_sbytes(norm(v)))
        d1 = int_term(s.ghost["dpos"])
        r1 = s.obj(sock).fields["rpos"]
        eng.oblige(f"{Q}.result_is_src_slice_at_pos", s, is_slice(v, arr, d0, d0 + n))            # d = src[pos:pos+|d|]
        eng.oblige(f"{Q}.between_0_and_requested", s, z3.And(n >= 0, n <= num))                    # 0 <= |d| <= n
        eng.oblige(f"{Q}.never_invents_bytes", s, d0 + n <= NET_END)                               # pos + |d| <= end
        eng.oblige(f"{Q}.cursor_advances_by_result", s, d1 == d0 + n)                              # pos' = pos + |d|
        eng.oblige(f"{Q}.result_is_bytes", s, z3.BoolVal(not (isinstance(v, SBytes) and v.mutable)))
        eng.oblige(f"{Q}.invariant_again", s, z3.And(buffer_is(s, w, arr, d1, r1), d1 <= r1, r1 <= NET_END))
    # ---- readline()
    st = State()
    sock = new_socket(st)
    w = new_wrapper(st, sock)
    arr = st.obj(sock).fields["arr"]
    d0 = int_term(st.ghost["dpos"])
    nl = NEXTLF_NET(d0)
    Q = "lemma.refines.SocketWrapper.readline"
    outs = REGISTRY[W + ".readline"].apply(eng, st, w, [], {}, None)
    eng.cover(f"{Q}.has_outcomes", st, z3.BoolVal(len(outs) == 2))
    for s, v in outs:
        n = bytes_len(as_sbytes(norm(v)))
        d1 = int_term(s.ghost["dpos"])
        r1 = s.obj(sock).fields["rpos"]
        eng.oblige(f"{Q}.result_is_src_slice_at_pos", s, is_slice(v, arr, d0, d0 + n))
        eng.oblige(f"{Q}.never_invents_bytes", s, z3.And(n >= 0, d0 + n <= NET_END))
        # the stream contract's line clause: ends at the first 0x0A at or after pos, or contains none
        eng.oblige(f"{Q}.ends_at_first_LF_or_has_none", s, z3.Or(d0 + n <= nl, z3.And(nl < NET_END, d0 + n == nl + 1)))
        eng.oblige(f"{Q}.cursor_advances_by_result", s, d1 == d0 + n)
        eng.oblige(f"{Q}.invariant_again", s, z3.And(buffer_is(s, w, arr, d1, r1), d1 <= r1, r1 <= NET_END))
    # ---- the same two over a FAULT-FREE peer (sends net[0:net_end], then closes; no timeouts): C02's completeness is verified for
    # the reader over the fault-free stream contract (read(n) = min(n, rest) bytes, readline = through the first LF else the rest).
    # The wrapper agrees with it exactly for readline, and for read whenever at least num bytes remain or none do; where 0 < rest <
    # num it hands out b"" instead of the partial tail - both make the reader stop (EOFError / stream error caught as end of data),
    # and in a concatenation of complete items (C02's input) the reader never asks for more than the current item holds.
    st = State()
    sock = new_socket(st, faultfree=True)
    w = new_wrapper(st, sock)
    arr = st.obj(sock).fields["arr"]
    d0 = int_term(st.ghost["dpos"])
    num = z3.Int("num")
    st.assume(num >= 0)
    Q = "lemma.refines_faultfree.SocketWrapper.read"
    rest = NET_END - d0
    for s, v in REGISTRY[W + ".read"].apply(eng, st, w, [SInt(num)], {}, None):
        n = bytes_len(as_sbytes(norm(v)))
        eng.oblige(f"{Q}.min_of_requested_and_rest_when_enough_or_nothing_remains", s,
                   z3.Implies(z3.Or(rest >= num, rest == 0), n == z3.If(num <= rest, num, rest)))
        eng.oblige(f"{Q}.otherwise_empty_with_the_tail_kept", s,
                   z3.Implies(z3.And(rest < num, rest > 0), z3.And(n == 0, buffer_is(s, w, arr, d0, NET_END))))
        eng.oblige(f"{Q}.result_is_src_slice_at_pos", s, is_slice(v, arr, d0, d0 + n))
    st = State()
    sock = new_socket(st, faultfree=True)
    w = new_wrapper(st, sock)
    arr = st.obj(sock).fields["arr"]
    d0 = int_term(st.ghost["dpos"])
    nl = NEXTLF_NET(d0)
    Q = "lemma.refines_faultfree.SocketWrapper.readline"
    outs = REGISTRY[W + ".readline"].apply(eng, st, w, [], {}, None)
    eng.cover(f"{Q}.has_outcomes", st, z3.BoolVal(len(outs) == 2))
    for s, v in outs:
        n = bytes_len(as_sbytes(norm(v)))
        eng.oblige(f"{Q}.through_first_LF_else_the_rest", s, n == z3.If(nl < NET_END, nl + 1 - d0, NET_END - d0))
        eng.oblige(f"{Q}.result_is_src_slice_at_pos", s, is_slice(v, arr, d0, d0 + n))
    return eng.obligations
