"""Contract (callee view, L1): RTCMMessage._set_attribute_single, once per data field of the
real table and per nesting depth at which it occurs (DESIGN C03-L1, C06, C09).

Total specification (no precondition beyond offset >= 0 and index entries >= 1): the call
fails exactly when the field's bits are not all inside the payload (or a value it depends on is
missing); otherwise the attribute named  base + "_%02d" per index  receives the field's bits
read as its declared type and multiplied by its resolution, the offset advances by the width,
and nothing else changes.
"""
import z3

from pyvc import extract, ops
from pyvc.contract import REGISTRY
from pyvc.ops import norm
from pyvc.state import State
from pyvc.symex import SomeException, select_n, store_n, wrap_kind
from pyvc.values import (
    CHR, AttrEntry, HList, HMap, RaiseExc, Ref, SBits, SBool, SBytes, SInt, SOpaque, SPayInt, SSlice, View, bits_to_int,
    bool_term, int_term, pymul, sort_of_kind,
)
from contracts.message import M, generic_payload, new_message
from contracts.message_glue import all_dicts
from spec import msm

Q = M + "._set_attribute_single"
MSM_COUNTS = {"DF394": "NSat", "DF395": "NSig", "DF396": "NCell"}


def core():
    return extract.module("pyrtcm.rtcmtypes_core")


def field_depths():
    """{field name: set of nesting depths at which it occurs in the payload tables}."""
    out = {}
    for did, (d, depths, path) in all_dicts().items():
        for k, v in d.items():
            if not isinstance(v, tuple):
                out.setdefault(k, set()).update(depths)
    return out


def instances(self, tier):
    fd = field_depths()
    out = []
    for name, (typ, width, res, _) in core().RTCM_DATA_FIELDS.items():
        depths = sorted(fd.get(name, {0})) or [0]
        for d in depths:
            if typ in ("PRN", "CPR", "CSG"):
                out.append({"field": name, "depth": d, "maps": "present"})
                out.append({"field": name, "depth": d, "maps": "none"})
            else:
                out.append({"field": name, "depth": d})
    return out


def spec_decode(typ, a, ubits):
    """Value of an a-bit field (bits LSB first) by declared type - property C03's reading."""
    if typ in ("UINT", "BIT", "BITX"):
        return "int", bits_to_int(ubits)
    if typ == "INT":  # two's complement: -2^(a-1) * msb + rest
        rest = bits_to_int(ubits[:a - 1])
        msb = ubits[a - 1]
        return "int", rest - z3.If(msb, z3.IntVal(1 << (a - 1)), z3.IntVal(0)) if not isinstance(msb, bool) else rest - ((1 << (a - 1)) if msb else 0)
    if typ == "SNT":  # sign-magnitude
        mag = bits_to_int(ubits[:a - 1])
        msb = ubits[a - 1]
        return "int", z3.If(msb, -mag, mag) if not isinstance(msb, bool) else (-mag if msb else mag)
    if typ == "CHA":
        return "str", CHR(bits_to_int(ubits))
    raise ValueError(typ)


def spec_scaled(kind, v, res):
    if kind != "int" or res in (0, 1):
        return kind, v
    if isinstance(res, float):
        return "float", pymul(res)(v)
    return "int", v * res


def verify(self, eng, inst):
    fi = extract.func(Q)
    C = core()
    anam, depth = inst["field"], inst["depth"]
    typ, width, res, _ = C.RTCM_DATA_FIELDS[anam]
    st = State()
    pv = generic_payload(st, "p", minlen=2)
    payload = SBytes([pv])
    lm = SInt(z3.Int("labelmsm"))
    selfv = new_message(st, payload, labelmsm=lm)
    obj = st.obj(selfv)
    obj.symbolic_pre = True
    L = 8 * pv.length()
    pay = SPayInt(pv)
    obj.fields.update({"_payloadi": pay, "_payblen": SInt(L), "_unknown": False, "_satmap": None, "_cellmap": None})
    I, S, B = z3.IntSort(), z3.StringSort(), z3.BoolSort()
    maps = inst.get("maps", "present")
    sat_h = cell_h = None
    if maps == "present":
        sat_h = HMap(1, (z3.Const("pre_satmap", z3.ArraySort(I, S)),), z3.Const("pre_satdom", z3.ArraySort(I, B)))
        cell_h = HMap(2, (z3.Const("pre_cellprn", z3.ArraySort(I, S)), z3.Const("pre_cellsig", z3.ArraySort(I, S))),
                      z3.Const("pre_celldom", z3.ArraySort(I, B)), True)
        obj.fields["_satmap"] = st.alloc(sat_h)
        obj.fields["_cellmap"] = st.alloc(cell_h)
    off = z3.Int("offset")
    st.assume(off >= 0)
    idx = [z3.Int(f"ix{j}") for j in range(depth)]
    for t in idx:
        st.assume(t >= 1)
    index = st.alloc(HList([SInt(t) for t in idx]))
    st.writes = set()
    tag = f"{anam}@{depth}" + (f",maps={maps}" if "maps" in inst else "")
    obs = {"offset": off, "payload_bits": L, **{f"ix{j}": t for j, t in enumerate(idx)}}

    # ------------------------------------------------------------------ specification
    def pre_entry(s, base, arity):
        return eng.attr_entry(s, s.obj(selfv), base, arity)

    derived = typ in ("PRN", "CPR", "CSG")
    canary = []
    raised = []
    for s, out in eng.exec_function(fi, st, {"self": selfv, "anam": anam, "offset": SInt(off), "index": index}, contract=REGISTRY[Q]):
        o = s.obj(selfv)
        # ---- expected behaviour, computed on the pre-state recorded in o.pre / the symbolic maps
        if derived:
            if maps == "none" or depth == 0:
                err = z3.BoolVal(True)
                exp_val = None
            else:
                h = sat_h if typ == "PRN" else cell_h
                err = z3.Not(z3.Select(h.dom, idx[0]))
                comp = 0 if typ in ("PRN", "CPR") else 1
                exp_val = ("str", z3.Select(h.val[comp], idx[0]))
            a = z3.IntVal(0)
        else:
            if anam == "DF396":
                ns, ng = pre_entry(s, "NSat", 0), pre_entry(s, "NSig", 0)
                pns, png = o.pre[("NSat", 0)], o.pre[("NSig", 0)]
                a = int_term(pns.val) * int_term(png.val)
                err = z3.Or(z3.Not(bool_term(pns.dom)), z3.Not(bool_term(png.dom)), a < 0, off + a > L)
                exp_val = ("slice", (L - off - a, a))
            else:
                a = z3.IntVal(width)
                err = off + width > L
                ubits = [pay.bit_msb(off + (width - 1 - j)) for j in range(width)]  # LSB first
                if typ == "STR":
                    u = bits_to_int(ubits)
                    old = pre_entry(s, anam, 0)
                    pold = o.pre[(anam, 0)]
                    oldv = z3.If(bool_term(pold.dom), pold.val.t, z3.StringVal(""))
                    # "consecutive text code units are joined": a NUL unit may be dropped or kept - the
                    # statement does not say, so both are accepted (DESIGN section 6, not a finding)
                    exp_val = ("str_nul_free", (z3.Concat(oldv, z3.If(u == 0, z3.StringVal(""), CHR(u))), z3.Concat(oldv, CHR(u))))
                else:
                    k, v = spec_decode(typ, width, ubits)
                    exp_val = spec_scaled(k, v, res)
            if anam == "IDF038":
                if depth == 0:
                    err = z3.BoolVal(True)
                else:
                    pre_entry(s, "IDF037", 1)
                    p37 = o.pre[("IDF037", 1)]
                    err = z3.Or(err, z3.Not(z3.Select(p37.dom, idx[0])))
        obs2 = dict(obs, width=a)
        if isinstance(out, RaiseExc):
            raised.append(s)
            eng.oblige(f"{Q}.exc.fails_only_if_field_not_inside_payload_or_dependency_missing[{tag}]", s, err, kind="exc", site=fi.lineno,
                       observe=obs2, note=f"raises {out.cls.__name__}: {out.msg}")
            if not inst.get("_infer"):
                # ... and with the one class the walk's caller view assumes (fields that read other attributes or the maps may
                # also fail with the lookup's own error when those are absent - a state the walk never produces, by tables.WF)
                fc = leaf_failure_class()
                dependent = typ in ("PRN", "CPR", "CSG") or anam in ("IDF038", "DF396")
                okc = fc is SomeException or out.cls is fc or (dependent and out.cls in (AttributeError, KeyError, TypeError))
                eng.oblige(f"{Q}.exc.failure_class_is_the_one_the_walk_assumes[{tag}]", s, z3.BoolVal(okc), kind="exc", site=fi.lineno,
                           note=f"raises {out.cls.__name__}, walk assumes {fc.__name__}")
            continue
        canary.append(s)
        eng.oblige(f"{Q}.post.no_attribute_from_bits_outside_payload[{tag}]", s, z3.Not(err), site=fi.lineno, observe=obs2)
        eng.oblige(f"{Q}.post.offset_advances_by_field_width[{tag}]", s, int_term(out.v) == off + a if out.v is not None else z3.BoolVal(False),
                   site=fi.lineno, observe=obs2)
        # ---- the attribute itself
        name_idx = [] if typ == "STR" else idx
        key = (anam, len(name_idx))
        ent = o.attrs.get(key)
        pre = o.pre.get(key)
        if ent is None or exp_val is None:
            eng.oblige(f"{Q}.post.attribute_named_with_two_digit_indices[{tag}]", s, False, note=f"attrs written: {sorted(map(str, o.written))}")
        else:
            kind, ev = exp_val
            if len(name_idx) == 0:
                if kind == "slice":
                    v = ent.val
                    good = z3.And(v.k == ev[0], v.a == ev[1]) if isinstance(v, SSlice) else z3.BoolVal(False)
                    g = z3.And(good, bool_term(ent.dom) if not isinstance(ent.dom, bool) else z3.BoolVal(ent.dom))
                elif kind == "str_nul_free":
                    g = z3.And(z3.Or(value_eq(s, "str", ent.val, ev[0]), value_eq(s, "str", ent.val, ev[1])),
                               bool_term(ent.dom) if not isinstance(ent.dom, bool) else z3.BoolVal(ent.dom))
                else:
                    g = z3.And(value_eq(s, kind, ent.val, ev), bool_term(ent.dom) if not isinstance(ent.dom, bool) else z3.BoolVal(ent.dom))
            else:
                if ent.kind != kind or pre is None:
                    g = z3.BoolVal(False)
                else:
                    g = z3.And(ent.val == store_n(pre.val, name_idx, ev), ent.dom == store_n(pre.dom, name_idx, z3.BoolVal(True)))
            eng.oblige(f"{Q}.post.attribute_value_is_field_bits_by_type_times_resolution[{tag}]", s, g, site=fi.lineno, observe=obs2)
        # ---- derived counters
        allowed = {key}
        if anam in MSM_COUNTS:
            ck = (MSM_COUNTS[anam], 0)
            allowed.add(ck)
            ce = o.attrs.get(ck)
            if anam == "DF396":
                pc_ = msm.popcount_slice(s, SSlice(pay, L - off - a, a))
            else:
                pc_ = z3.Sum([z3.If(b, 1, 0) for b in ubits])
            g = z3.BoolVal(False) if ce is None or ce.dom is not True else int_term(ce.val) == pc_
            eng.oblige(f"{Q}.post.count_is_popcount_of_mask[{tag}]", s, g, site=fi.lineno, observe=obs2)
        if anam == "DF396":
            sm, cm = o.fields.get("_satmap"), o.fields.get("_cellmap")
            okm = all(isinstance(x, Ref) and getattr(s.obj(x), "by_contract", None) == M + "._getsatcellmaps" for x in (sm, cm))
            eng.oblige(f"{Q}.post.maps_built_by_getsatcellmaps_after_counts[{tag}]", s, z3.BoolVal(okm), site=fi.lineno)
        if anam == "IDF038" and depth >= 1:
            p37 = o.pre[("IDF037", 1)]
            N = z3.ToReal(z3.Select(p37.val, idx[0]) + 1)
            Mo = z3.ToReal(exp_val[1] + 1)
            # the IGS SSR count formula, in exact arithmetic: nc = (N+1)(N+2)/2 - (N-M)(N-M+1)/2 ; ns = nc - (N+1)
            ncr = ((N + 1) * (N + 2)) / 2 - ((N - Mo) * (N - Mo + 1)) / 2
            trunc = lambda r: z3.If(r >= 0, z3.ToInt(r), -z3.ToInt(-r))
            nc = trunc(ncr)
            nsr = z3.ToReal(nc) - (N + 1)
            ns = trunc(nsr)
            f = o.fields
            g = z3.And(int_term(f.get("_NHarmCoeffC", 0)) == nc, int_term(f.get("_NHarmCoeffS", 0)) == ns) \
                if "_NHarmCoeffC" in f and "_NHarmCoeffS" in f else z3.BoolVal(False)
            eng.oblige(f"{Q}.post.harmonic_coefficient_counts[{tag}]", s, g, site=fi.lineno, observe=obs2)
        # ---- frame: nothing else written
        wr_attr = set(o.written)
        wr_fields = {w[1] for w in s.writes if w[0] == selfv.oid and isinstance(w[1], str)}
        ok_fields = set()
        if anam == "DF396":
            ok_fields = {"_satmap", "_cellmap"}
        if anam == "IDF038":
            ok_fields = {"_NHarmCoeffC", "_NHarmCoeffS"}
        eng.oblige(f"{Q}.frame.no_other_attribute_written[{tag}]", s, z3.BoolVal(wr_attr <= allowed and wr_fields <= ok_fields), kind="frame",
                   site=fi.lineno, note=f"attrs {sorted(map(str, wr_attr))} fields {sorted(wr_fields)}")
        items = s.obj(index).items
        eng.oblige(f"{Q}.frame.index_list_unchanged[{tag}]", s,
                   z3.And(z3.BoolVal(len(items) == depth), *[int_term(x) == t for x, t in zip(items, idx)]), kind="frame")
    # instances whose specification is 'always fails' (derived field before the maps exist) have only raising paths
    return canary[:1] or raised[:1]


def value_eq(st, kind, v, ev):
    v = norm(v)
    if kind == "int":
        # both sides are linear sums over the same payload-bit atoms (Appendix A: bit-list values)
        return int_term(v) == ev
    if kind == "str":
        if isinstance(v, str):
            return z3.StringVal(v) == ev
        if isinstance(v, SOpaque) and v.kind == "str":
            return v.t == ev
        return z3.BoolVal(False)
    if kind == "float":
        if isinstance(v, SOpaque) and v.kind == "float":
            return v.t == ev
        return z3.BoolVal(False)
    return z3.BoolVal(False)


def coefficient_count_lemma():
    """Ground lemma: for every transmitted degree/order value (4-bit fields) the formula above
    counts the spherical-harmonic coefficients of IGS SSR: cosine C(n,m) for 0<=n<=N, 0<=m<=min(n,M);
    sine S(n,m) for the same with m >= 1."""
    out = []
    bad = []
    for d in range(16):
        for o_ in range(16):
            N, Mo = d + 1, o_ + 1
            nc = int(((N + 1) * (N + 2) / 2) - ((N - Mo) * (N - Mo + 1) / 2))
            ns = int(nc - (N + 1))
            cnt_c = sum(1 for n in range(N + 1) for m in range(min(n, Mo) + 1))
            cnt_s = sum(1 for n in range(N + 1) for m in range(1, min(n, Mo) + 1))
            if Mo <= N and (nc != cnt_c or ns != cnt_s):
                bad.append((d, o_, nc, cnt_c, ns, cnt_s))
    out.append(("lemma.igs.coefficient_count_formula_counts_C_and_S_terms[order<=degree]", not bad, {"mismatch": bad[:4]}))
    return out


_FAIL = []


def leaf_failure_class():
    """The exception class the real leaf raises when a plain field does not fit the payload, read off the leaf's own symbolic
    execution on every run (strongest exceptional postcondition; on the pinned tree: ValueError, 'negative shift count').
    The walk's caller view raises exactly this class, so an `except` clause is judged by what can actually reach it; the leaf's
    own verification obliges every field to fail with this class.  Falls back to 'some Exception' if the inference is not unique."""
    if not _FAIL:
        import builtins
        classes = set()
        try:
            from pyvc.symex import Engine
            for fld in ("DF002", "DF003", "DF025"):
                eng = Engine(REGISTRY)
                verify(REGISTRY[Q], eng, {"field": fld, "depth": 0, "_infer": True})
                for ob in eng.obligations:
                    if ".exc.fails_only_if" in ob.name and ob.note and ob.note.startswith("raises "):
                        classes.add(ob.note.split()[1].rstrip(":"))
        except Exception:  # noqa  (modified leaf outside the subset, ...): no inference
            classes = set()
        cls = getattr(builtins, next(iter(classes)), None) if len(classes) == 1 else None
        _FAIL.append(cls if isinstance(cls, type) and issubclass(cls, Exception) else SomeException)
    return _FAIL[0]


_c = REGISTRY[Q]
type(_c).instances = instances
type(_c).verify = verify
