"""Sidecar contracts for semuconsulting/pyrtcm.  Importing this package registers them all."""
import importlib
import pkgutil

for _m in pkgutil.iter_modules(__path__):
    importlib.import_module(f"{__name__}.{_m.name}")
