"""Contracts: SocketWrapper.dechunk and _recv in chunked mode (DESIGN C12).

Ghost state: enc = the chunked-encoded stream received from the peer (array 'net'); a ghost
partition of enc into chunks  hexsize CRLF data CRLF  ... 0 CRLF CRLF ; dec = the decoded body
(array 'dec'): chunk at s contributes dec[doff(s) : doff(next(s))] = Zenc(data_s), where Zenc
applies the per-chunk decompression selected by the encoding bits (uninterpreted, same symbols
in code and spec).  Class invariant (chunked mode, before the zero chunk):
      _buffer == dec[dpos : doff(cs)]   and   _partial == enc[cs : rpos]   and   ISC(cs)
i.e. everything up to chunk boundary cs is decoded, the undecoded tail is carried over.
"""
import z3

from pyvc import extract, ops
from pyvc.contract import Contract, register
from pyvc.ops import Cases, bytes_len, norm
from pyvc.state import State, byte_at, entails, feasible
from pyvc.symex import LoopSpec
from pyvc.values import ByteArr, HObject, RaiseExc, Ref, SBool, SBytes, SInt, View, as_sbytes, bool_term, int_term
from contracts.reader import is_slice, nextlf_fun
from contracts.socketw import W, new_socket

I, B = z3.IntSort(), z3.BoolSort()
ISC = z3.Function("isChunkStart", I, B)
DOFF = z3.Function("decodedOffset", I, I)
HEXOK = z3.Function("HexOK_net", I, I, B)      # int(line.strip(), 16) succeeds for the line enc[lo:hi]
HEXVAL = z3.Function("HexVal_net", I, I, I)    # ... and its value
ZLO = {}
ENC_END = z3.Int("enc_len")                    # length of the whole encoded body (zero chunk and final CRLF included)


def zview(src, wbits):
    """decompress(src, wbits): a byte sequence determined by (source bytes, wbits) - uninterpreted."""
    tag = {31: "gzip", 15: "zlib", -15: "raw"}.get(wbits, f"w{wbits}")
    arr = ByteArr.get(f"z{tag}_{src.arr.name}")
    lo = z3.Function(f"zlo_{tag}_{src.arr.name}", I, I, I)(src.lo, src.hi)
    ln = z3.Function(f"zlen_{tag}_{src.arr.name}", I, I, I)(src.lo, src.hi)
    return View(arr, lo, lo + ln), ln


@register
class Decompress(Contract):
    qualname = "ext.zlib.decompress"
    trusted = ("zlib.decompress(data, wbits): a function of (data, wbits); assumed to succeed on the chunk bodies of a well-formed "
               "compressed stream (zlib internals are not modelled)")

    def apply(self, eng, st, selfv, args, kwargs, site):
        data = as_sbytes(args[0])
        w = kwargs.get("wbits", args[1] if len(args) > 1 else 15)
        if len(data.segs) != 1 or not isinstance(data.segs[0], View):
            from pyvc.values import EngineUnsupported
            raise EngineUnsupported("decompress of a composite value")
        v, ln = zview(data.segs[0], w)
        st.assume(ln >= 0)
        return [(st, SBytes([v]))]


@register
class BytesIOCtor(Contract):
    qualname = "ext.BytesIO"
    trusted = "io.BytesIO(b): a fault-free stream over exactly the bytes b (read(n) = min(n, rest), readline through the first LF)"

    def apply(self, eng, st, selfv, args, kwargs, site):
        data = as_sbytes(args[0])
        if len(data.segs) != 1 or not isinstance(data.segs[0], View):
            from pyvc.values import EngineUnsupported
            raise EngineUnsupported("BytesIO over a composite value")
        v = data.segs[0]
        o = HObject("ext.Stream")
        o.pycls = object
        o.fields.update({"arr": v.arr, "pos": v.lo, "end": v.hi, "faultfree": True, "last_empty": False, "reads": 0})
        return [(st, st.alloc(o))]


def chunk_facts(st, arr, p):
    """Structure of the chunk that starts at boundary p (instantiated at the current chunk only)."""
    nlf = nextlf_fun(arr)
    nl = nlf(p)
    h = nl + 1
    L = HEXVAL(p, h)
    b = lambda i: byte_at(st, arr, i)
    body = z3.And(
        nl >= p + 1, b(nl) == 0x0A, b(nl - 1) == 0x0D, HEXOK(p, h), L >= 0, h + L + 2 <= ENC_END,
        b(h + L) == 0x0D, b(h + L + 1) == 0x0A, nlf(h + L) == h + L + 1,
        z3.Implies(L > 0, z3.And(ISC(h + L + 2), DOFF(h + L + 2) >= DOFF(p))),
        z3.Implies(L == 0, ENC_END == h + 2),
    )
    return z3.Implies(z3.And(ISC(p), p < ENC_END), body), nl, h, L


def enc_bits(st, enc):
    """Truth of the three compression bits on this path (None if undetermined)."""
    out = []
    for bit in (2, 4, 8):
        t = (int_term(enc) / bit) % 2 == 1
        if entails(st.pc, t):
            out.append(True)
        elif entails(st.pc, z3.Not(t)):
            out.append(False)
        else:
            out.append(None)
    return out


def zenc_spec(st, enc, src):
    """Zenc(data): the decompressions selected by the encoding bits, in the order gzip, zlib, raw deflate."""
    v = src
    for on, w in zip(enc_bits(st, enc), (31, 15, -15)):
        if on is None:
            return None
        if on:
            v, ln = zview(v, w)
            st.assume(ln >= 0)
    return v


def dec_view(lo, hi):
    return View(ByteArr.get("dec"), lo, hi)


def rebase(st, v, aliases):
    """Rewrite segments that are (by a registered definitional alias) slices of the decoded body into views of `dec`."""
    v = as_sbytes(v)
    out = []
    for s in v.segs:
        rep = s
        if isinstance(s, View):
            for src, dst in aliases:
                if src.arr is s.arr and entails(st.pc, z3.And(src.lo == s.lo, src.hi == s.hi)):
                    rep = dst
                    break
        out.append(rep)
    # merge adjacent dec views semantically
    merged = []
    for s in out:
        if merged and isinstance(s, View) and isinstance(merged[-1], View) and s.arr is merged[-1].arr and entails(st.pc, merged[-1].hi == s.lo):
            merged[-1] = View(s.arr, merged[-1].lo, s.hi)
        elif isinstance(s, View) and entails(st.pc, s.lo == s.hi):
            continue
        else:
            merged.append(s)
    return SBytes(merged, mutable=v.mutable)


@register
class Dechunk(Contract):
    qualname = W + ".dechunk"

    # requires segment = enc[a:b], ISC(a), a is before the end of the body
    # ensures  chunks = dec[doff(a) : doff(c)], partial = enc[c : b] (or b"" once the zero chunk has been seen), where c is the
    #          first chunk boundary >= a whose chunk (size line, data, closing CRLF) is not completely inside [a, b)
    def apply(self, eng, st, selfv, args, kwargs, site):
        seg = as_sbytes(args[0])
        arr = ByteArr.get("net")
        if len(seg.segs) == 0:
            return [(st, (b"", b""))]
        v = seg.segs[0]
        tag = st.next_oid[0]
        st.next_oid[0] += 1
        c = z3.Int(f"next_incomplete_chunk_{tag}")
        done = z3.Bool(f"zero_chunk_seen_{tag}")
        st.assume(c >= v.lo, c <= v.hi, ISC(c), DOFF(c) >= DOFF(v.lo))
        chunks = norm(SBytes([dec_view(DOFF(v.lo), DOFF(c))]))
        outs = []
        s1 = st.fork()
        s1.assume(z3.Not(done))
        outs.append((s1, (chunks, norm(SBytes([View(arr, c, v.hi)])))))
        s2 = st.fork()
        s2.assume(done)
        s2.ghost["chunk_done"] = True
        outs.append((s2, (chunks, b"")))
        return outs

    def verify(self, eng, inst):
        fi = extract.func(self.qualname)
        st = State()
        arr = ByteArr.get("net")
        a, b = z3.Int("seg_lo"), z3.Int("seg_hi")
        st.assume(a >= 0, b >= a, b <= ENC_END, ISC(a), a < ENC_END)
        o = HObject(W)
        o.pycls = extract.module("pyrtcm.socketwrapper").SocketWrapper
        enc = SInt(z3.Int("encoding"))
        o.fields.update({"_encoding": enc})
        selfv = st.alloc(o)
        seg = SBytes([View(arr, a, b)])
        head = z3.Int("chunk_at_loop_head")
        aliases = []
        state = {}

        def stream_of(s):
            return s.env["instream"]

        def havoc(eng_, s):
            f = s.obj(stream_of(s)).fields
            f["pos"] = head

        def chunks_kind(eng_, s, k):
            return norm(SBytes([dec_view(DOFF(a), DOFF(head))]))

        def inv(eng_, s, k):
            f = s.obj(stream_of(s)).fields
            pos = f["pos"]
            ch = rebase(s, s.env["chunks"], aliases)
            return [("stream_at_chunk_boundary", z3.And(ISC(pos), pos >= a, pos <= b, DOFF(pos) >= DOFF(a))),
                    ("chunks_are_decoded_bodies_so_far", is_slice(ch, ByteArr.get("dec"), DOFF(a), DOFF(pos))),
                    ("no_partial_yet", z3.BoolVal(norm(s.env["partial"]) == b""))]

        def facts(eng_, s, k):
            fact, nl, h, L = chunk_facts(s, arr, head)
            out = [fact, head < ENC_END]
            src = View(arr, h, h + L)
            z = zenc_spec(s, enc, src)
            if z is not None:
                aliases.append((z, dec_view(DOFF(head), DOFF(h + L + 2))))
                # definition of the decoded body: chunk at `head` contributes Zenc(data) at doff(head)
                out.append(z3.Implies(L > 0, DOFF(h + L + 2) == DOFF(head) + (z.hi - z.lo)))
            return out

        self.loops = {0: LoopSpec(invariant=inv, havoc=havoc, kinds={"chunks": chunks_kind, "partial": lambda e, s, k: b""}, facts=facts)}
        Q = self.qualname
        canary = []
        # the three compression bits: verify each combination on its own path
        for s0 in split_bits(eng, st, enc):
            for s, out in eng.exec_function(fi, s0, {"self": selfv, "segment": seg}, contract=self):
                if isinstance(out, RaiseExc):
                    eng.oblige(f"{Q}.raises_nothing", s, False, kind="exc", note=f"raises {out.cls.__name__}: {out.msg}")
                    continue
                canary.append(s)
                r = out.v
                if not (isinstance(r, tuple) and len(r) == 2):
                    eng.oblige(f"{Q}.post.returns_pair", s, False, note=repr(r))
                    continue
                chunks, partial = rebase(s, r[0], aliases), as_sbytes(norm(r[1]))
                pos_head = head  # the chunk being processed when the loop was left
                npart = bytes_len(partial)
                c = z3.simplify(b - npart)
                obs = {"segment_len": b - a, "partial_len": npart, "encoding": enc.t}
                # partial is the undecoded tail enc[c:b] (or nothing after the zero chunk), c a chunk boundary
                eng.oblige(f"{Q}.post.partial_is_undecoded_tail_from_a_chunk_boundary", s,
                           z3.Or(z3.And(is_slice(partial, arr, c, b), ISC(c), c >= a), z3.And(npart == 0, HEXVAL(head, nextlf_fun(arr)(head) + 1) == 0)),
                           observe=obs)
                eng.oblige(f"{Q}.post.chunks_are_the_decoded_bodies_of_the_complete_chunks", s,
                           z3.Or(z3.And(ISC(c), is_slice(chunks, ByteArr.get("dec"), DOFF(a), DOFF(c))),
                                 z3.And(npart == 0, HEXVAL(head, nextlf_fun(arr)(head) + 1) == 0,
                                        is_slice(chunks, ByteArr.get("dec"), DOFF(a), DOFF(head)))), observe=obs)
                # maximality: the chunk at c is NOT completely inside the segment (nothing decodable is held back)
                _, nl, h, L = chunk_facts(s, arr, c)
                eng.oblige(f"{Q}.post.no_complete_chunk_left_in_partial", s,
                           z3.Implies(z3.And(npart > 0), z3.Not(z3.And(nl < b, h + L + 2 <= b))), observe=obs)
        return canary


def split_bits(eng, st, enc):
    outs = [st]
    for bit in (2, 4, 8):
        nxt = []
        for s in outs:
            t = (int_term(enc) / bit) % 2 == 1
            s1 = s.fork()
            s1.assume(t)
            s2 = s
            s2.assume(z3.Not(t))
            nxt += [s1, s2]
        outs = nxt
    return outs


def verify_recv_chunked(self, eng, inst):
    fi = extract.func(W + "._recv")
    st = State()
    sock = new_socket(st)
    sf = st.obj(sock).fields
    arr, r0 = sf["arr"], sf["rpos"]
    cs = z3.Int("cs")  # chunk boundary up to which everything is decoded
    d0 = z3.Int("dpos0")
    st.assume(cs >= 0, cs <= r0, ISC(cs), d0 >= 0, d0 <= DOFF(cs), r0 <= ENC_END, cs < ENC_END)
    o = HObject(W)
    o.pycls = extract.module("pyrtcm.socketwrapper").SocketWrapper
    enc, bufsize = z3.Int("encoding"), z3.Int("bufsize")
    st.assume(enc % 2 == 1, bufsize >= 1)
    dec = ByteArr.get("dec")
    o.fields.update({"_socket": sock, "_bufsize": SInt(bufsize), "_encoding": SInt(enc),
                     "_buffer": SBytes([View(dec, d0, DOFF(cs))], mutable=True), "_partial": norm(SBytes([View(arr, cs, r0)]))})
    selfv = st.alloc(o)
    Q = W + "._recv"
    canary = []
    for s, out in eng.exec_function(fi, st, {"self": selfv}, contract=self):
        if isinstance(out, RaiseExc):
            eng.oblige(f"{Q}.chunked.raises_nothing", s, False, kind="exc", note=f"raises {out.cls.__name__}")
            continue
        canary.append(s)
        f = s.obj(selfv).fields
        r1 = s.obj(sock).fields["rpos"]
        res = norm(out.v)
        if res is False:
            eng.oblige(f"{Q}.chunked.post.false_means_nothing_changed", s,
                       z3.And(is_slice(f["_buffer"], dec, d0, DOFF(cs)), is_slice(f["_partial"], arr, cs, r0), r1 == r0))
            continue
        # True is reported only for a receive that took at least one byte off the peer's stream: read()'s loop goes round again
        # on True, so this is what makes it terminate on a finite stream (C04), and what keeps a closed peer from being polled for ever
        eng.oblige(f"{Q}.chunked.post.true_means_segment_received", s,
                   z3.And(z3.BoolVal(res is True), r1 > r0, z3.BoolVal(s.obj(sock).fields["last"] == "data")),
                   observe={"received": r1 - r0}, note=str(s.obj(sock).fields["last"]))
        part = as_sbytes(norm(f["_partial"]))
        npart = bytes_len(part)
        c2 = z3.simplify(r1 - npart)
        buf = rebase(s, f["_buffer"], [])
        if s.ghost.get("chunk_done", False):
            # the zero chunk was in this segment: the buffer holds every decoded byte not yet delivered, nothing is carried over
            eng.oblige(f"{Q}.chunked.post.after_zero_chunk_buffer_is_rest_of_decoded_body", s,
                       z3.And(npart == 0, z3.BoolVal(len(buf.segs) <= 1 and all(isinstance(x, View) and x.arr is dec for x in buf.segs)),
                              buf.segs[0].lo == d0 if buf.segs else z3.BoolVal(True)))
            continue
        eng.oblige(f"{Q}.chunked.post.invariant_preserved", s,
                   z3.And(ISC(c2), c2 >= cs, is_slice(part, arr, c2, r1), is_slice(buf, dec, d0, DOFF(c2))),
                   observe={"received": r1 - r0, "carried_over": npart})
    return canary


from contracts.socketw import WRecv  # noqa: E402

_plain_verify = WRecv.verify
WRecv.instances = lambda self, tier: ["plain", "chunked"]
WRecv.verify = lambda self, eng, inst: verify_recv_chunked(self, eng, inst) if inst == "chunked" else _plain_verify(self, eng, inst)
