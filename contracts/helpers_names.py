"""Contracts: pyrtcm.rtcmhelpers.att2idx / att2name / datadesc  (DESIGN C19) - on every
attribute name the parser can produce: base + "_%02d" per nesting level, indices symbolic."""
import z3

from pyvc import extract, ops
from pyvc.contract import Contract, register
from pyvc.ops import norm
from pyvc.state import State
from pyvc.values import Fmt, RaiseExc, SInt, SStr, int_term

H = "pyrtcm.rtcmhelpers."


def name_instances():
    from spec import tablecheck
    out = []
    for base, depth in sorted(tablecheck.producible_names()):
        out.append({"base": base, "depth": depth})
    return out


def render(st, base, depth):
    idx = [z3.Int(f"i{j}") for j in range(depth)]
    for t in idx:
        st.assume(t >= 1)
    segs = [base]
    for t in idx:
        segs += ["_", Fmt("02d", SInt(t))]
    return norm(SStr(segs)), idx


class NameHelper(Contract):
    fn = None

    def instances(self, tier):
        return name_instances()

    def expected(self, inst, idx):
        raise NotImplementedError

    def applies(self, inst):
        return True

    def verify(self, eng, inst):
        fi = extract.func(self.qualname)
        st = State()
        name, idx = render(st, inst["base"], inst["depth"])
        tag = f"{inst['base']}@{inst['depth']}"
        canary = []
        obs = {f"i{j}": t for j, t in enumerate(idx)}
        for s, out in eng.exec_function(fi, st, {fi.params[0]: name}, contract=self):
            canary.append(s)
            if not self.applies(inst):
                continue
            if isinstance(out, RaiseExc):
                eng.oblige(f"{self.qualname}.raises_nothing[{tag}]", s, False, kind="exc", note=f"raises {out.cls.__name__}: {out.msg}", observe=obs)
                continue
            eng.oblige(f"{self.qualname}.post[{tag}]", s, self.good(s, inst, idx, norm(out.v)), observe=obs, note=repr(out.v)[:80])
        if not self.applies(inst):
            eng.oblige(f"{self.qualname}.not_constrained_on_unindexed_names[{tag}]", st, True)
        return canary


@register
class Att2Idx(NameHelper):
    qualname = H + "att2idx"

    def applies(self, inst):
        return inst["depth"] >= 1

    def good(self, s, inst, idx, r):
        if inst["depth"] == 1:
            return int_term(r) == idx[0] if isinstance(r, (int, SInt)) and not isinstance(r, bool) else z3.BoolVal(False)
        if isinstance(r, tuple) and len(r) == len(idx) and all(isinstance(x, (int, SInt)) for x in r):
            return z3.And(*[int_term(x) == t for x, t in zip(r, idx)])
        return z3.BoolVal(False)


@register
class Att2Name(NameHelper):
    qualname = H + "att2name"

    def applies(self, inst):
        return inst["depth"] >= 1

    def good(self, s, inst, idx, r):
        return z3.BoolVal(r == inst["base"])


@register
class DataDesc(NameHelper):
    qualname = H + "datadesc"

    def good(self, s, inst, idx, r):
        exp = extract.module("pyrtcm.rtcmtypes_core").RTCM_DATA_FIELDS[inst["base"]][3]
        return z3.BoolVal(r == exp)
