"""Contract: RTCMMessage._getsatcellmaps  (DESIGN C09, C16)."""
import z3

from pyvc import extract, ops
from pyvc.contract import Contract, register
from pyvc.ops import norm
from pyvc.state import State, byte_at
from pyvc.symex import LoopSpec
from pyvc.values import (
    AttrEntry, HMap, HObject, HSeq, RaiseExc, Ref, SBits, SBytes, SInt, SOpaque, SPayInt, SSlice, View, bool_term,
    int_term,
)
from contracts.message import M, generic_payload, new_message
from spec import msm


def constellations():
    """{prefix: first MSM identity with that prefix} from the working tree's tables."""
    tabs = extract.module("pyrtcm.rtcmtables").PRNSIGMAP
    msmt = extract.module("pyrtcm.rtcmtypes_get_msm").RTCM_PAYLOADS_GET_MSM
    out = {}
    for ident in msmt:
        out.setdefault(ident[0:3], ident)
    for pre in tabs:
        out.setdefault(pre, pre + "7")
    return out


def hmap_arrays(obj):
    return obj.val, obj.dom


@register
class GetSatCellMaps(Contract):
    qualname = M + "._getsatcellmaps"

    # total contract (no precondition on the attribute values):
    #   _satmap[rank(p)] = PRN_c(p) for every set bit p (MSB first) of DF394, dom = [1, popcount]
    #   sigs[rank(q)-1]  = LABEL_c(q, labelmsm == 2 ? band : RINEX) for set bits of DF395
    #   _cellmap after i bits = CM(i) (spec/msm.cell_unfold: satellite-major, k-th set bit is cell k)
    #   writes only _satmap and _cellmap; reads _labelmsm only to pick the label slot
    def apply(self, eng, st, selfv, args, kwargs, site):
        obj = st.obj(selfv)
        tag = st.next_oid[0]
        I, S, B = z3.IntSort(), z3.StringSort(), z3.BoolSort()
        sm = HMap(1, (z3.Const(f"specSatMap_{tag}", z3.ArraySort(I, S)),), z3.Const(f"specSatDom_{tag}", z3.ArraySort(I, B)))
        cm = HMap(2, (z3.Const(f"specCellPrn_{tag}", z3.ArraySort(I, S)), z3.Const(f"specCellSig_{tag}", z3.ArraySort(I, S))),
                  z3.Const(f"specCellDom_{tag}", z3.ArraySort(I, B)), True)
        sm.by_contract = cm.by_contract = self.qualname
        for name, m in (("_satmap", sm), ("_cellmap", cm)):
            ref = st.alloc(m)
            outs = eng.set_attr(st, selfv, name, ref)
            if len(outs) != 1 or isinstance(outs[0][1], RaiseExc):
                return outs
        return [(st, None)]

    def instances(self, tier):
        return [{"prefix": p, "identity": i} for p, i in sorted(constellations().items())]

    def hint_profiles(self):
        """Concrete mask profiles used only to *find counterexamples* when a query is too hard."""
        out = []
        for sats, sigs in (((0, 63), (30, 31)), ((63, 62, 61), (31,)), ((0,), (0, 31)), ((5, 40), (10, 20, 30))):
            hs = [z3.Bool(f"m{j}") == z3.BoolVal(j in sats) for j in range(64)]
            hs += [z3.Bool(f"g{j}") == z3.BoolVal(j in sigs) for j in range(32)]
            for lm in (1, 2):
                out.append(hs + [z3.Int("labelmsm") == lm, z3.Int("cm_shift") == 0, z3.Int("cm_width") == len(sats) * len(sigs)])
        return out

    def canary_hints(self):
        """Concrete inputs for the vacuity check: satellites 1 and 64, signals 1 and 2, 2x2 cell mask."""
        hs = [z3.Bool(f"m{j}") == z3.BoolVal(j in (0, 63)) for j in range(64)]
        hs += [z3.Bool(f"g{j}") == z3.BoolVal(j in (30, 31)) for j in range(32)]
        hs += [z3.Int("labelmsm") == 1, z3.Int("cm_shift") == 0, z3.Int("cm_width") == 4, z3.Int("p_lo") == 0, z3.Int("p_hi") == 30]
        return hs

    def verify(self, eng, inst):
        fi = extract.func(self.qualname)
        ident = inst["identity"]
        mid = int(ident)
        st = State()
        pv = generic_payload(st, "p", minlen=2)
        st.assume(byte_at(st, pv.arr, pv.lo) == (mid >> 4), byte_at(st, pv.arr, pv.lo + 1) / 16 == (mid & 0xF))
        payload = SBytes([pv])
        lm = SInt(z3.Int("labelmsm"))
        selfv = new_message(st, payload, labelmsm=lm)
        obj = st.obj(selfv)
        obj.fields.update({"_satmap": None, "_cellmap": None, "_unknown": False, "_payloadi": SPayInt(pv), "_payblen": SInt(8 * pv.length())})
        mbits = [z3.Bool(f"m{j}") for j in range(64)]  # LSB first
        gbits = [z3.Bool(f"g{j}") for j in range(32)]
        k, a = z3.Int("cm_shift"), z3.Int("cm_width")
        st.assume(k >= 0, a >= 0)
        sl = SSlice(SPayInt(pv), k, a)
        obj.attrs[("DF394", 0)] = AttrEntry("int", SBits(mbits), True)
        obj.attrs[("DF395", 0)] = AttrEntry("int", SBits(gbits), True)
        obj.attrs[("DF396", 0)] = AttrEntry("any", sl, True)
        st.writes = set()
        prnmap, sigmap = extract.module("pyrtcm.rtcmtables").PRNSIGMAP[inst["prefix"]]
        satpos = msm.mask_positions(mbits, 64)   # [(p, bit_p)] p = 1..64 from the MSB
        sigpos = msm.mask_positions(gbits, 32)
        rinex = int_term(lm) != 2
        plabel = msm.prn_label(prnmap)
        rl, bl = msm.sig_label(sigmap, True), msm.sig_label(sigmap, False)
        FS, FG, FC = msm.Fold("sat", 1, 1), msm.Fold("sig", 1, 0), msm.Fold("cell", 2, 1)
        st.assume(FS.base_facts(), FG.base_facts(), FC.base_facts())
        nsat_spec, nsig_spec = FS.rank(64), FG.rank(32)
        ncells = nsat_spec * nsig_spec
        Q = self.qualname
        tag = inst["prefix"]

        def test_bit(j):  # bit j (1-based) in the code's own numbering of the cell mask: LSB index ncells - j
            kk = ncells - j
            return z3.And(kk >= 0, kk < a, sl.bit_lsb(kk))

        def hmap_of(s, ref):
            h = s.obj(ref)
            if not isinstance(h, HMap):
                from pyvc.values import hmap_from_dict
                h = hmap_from_dict(h.d)
                s.heap[ref.oid] = h
            return h

        def hseq_of(s, ref):
            h = s.obj(ref)
            if not isinstance(h, HSeq):
                h = HSeq.from_list(h.items)
                s.heap[ref.oid] = h
            return h

        def maparrs(h, n):
            e = z3.K(z3.IntSort(), z3.StringVal(""))
            return (tuple(h.val) if h.val else (e,) * n), h.dom

        fidx = lambda kk: z3.simplify(z3.If(kk >= 1, kk - 1, 0))  # positions processed after kk iterations (idx = 0 is a no-op)

        # ---- loop 0: satellites
        def sat_inv(eng_, s, kk):
            h = hmap_of(s, s.obj(selfv).fields["_satmap"])
            (v,), d = maparrs(h, 1)
            i = fidx(kk)
            return [("nsat_is_rank", int_term(s.env["nsat"]) == FS.rank(i)),
                    ("satmap_is_fold_prefix", z3.And(v == FS.arr[0](i), d == FS.dom(i)))]

        def sat_install(eng_, s, kk):
            i = fidx(kk)
            ref = s.obj(selfv).fields["_satmap"]
            s.heap[ref.oid] = HMap(1, (FS.arr[0](i),), FS.dom(i))
            return SInt(FS.rank(i))

        def sat_facts(eng_, s, jj):
            j = z3.simplify(jj).as_long()
            if j == 0:
                return []
            return [FS.unfold(z3.IntVal(j - 1), satpos[j - 1][1], [plabel(j)])]

        # ---- loop 1: signals
        def sig_inv(eng_, s, kk):
            h = hseq_of(s, s.env["sigs"])
            i = fidx(kk)
            return [("nsig_is_rank", int_term(s.env["nsig"]) == FG.rank(i)),
                    ("signal_list_is_fold_prefix", z3.And(h.n == FG.rank(i), h.arr == FG.arr[0](i)))]

        def sig_install(eng_, s, kk):
            i = fidx(kk)
            s.heap[s.env["sigs"].oid] = HSeq(FG.rank(i), FG.arr[0](i))
            return SInt(FG.rank(i))

        def sig_facts(eng_, s, jj):
            j = z3.simplify(jj).as_long()
            if j == 0:
                return []
            lab = z3.If(rinex, z3.StringVal(rl(j)), z3.StringVal(bl(j)))
            return [FG.unfold(z3.IntVal(j - 1), sigpos[j - 1][1], [lab]), FG.rank(z3.IntVal(j - 1)) >= 0]

        # ---- loops 2/3: cells
        def labels(s):
            sat_h = hmap_of(s, s.obj(selfv).fields["_satmap"])
            sg = hseq_of(s, s.env["sigs"])
            (sv,), _ = maparrs(sat_h, 1)
            return (lambda t: z3.Select(sv, t)), (lambda t: z3.Select(sg.arr, t))

        def cell_install(s, i):
            ref = s.obj(selfv).fields["_cellmap"]
            s.heap[ref.oid] = HMap(2, (FC.arr[0](i), FC.arr[1](i)), FC.dom(i), True)
            s.env["ncell"] = SInt(FC.rank(i))

        def cell_inv_at(s, i):
            h = hmap_of(s, s.obj(selfv).fields["_cellmap"])
            (v0, v1), d = maparrs(h, 2)
            ix = int_term(s.env["idx"])  # the array facts are stated at the local idx (pure congruence), the
            # arithmetic fact idx == position separately (the only non-linear obligation)
            return [("idx_is_position", ix == i),
                    ("ncell_is_rank", int_term(s.env["ncell"]) == FC.rank(ix)),
                    ("cellmap_is_fold_prefix", z3.And(v0 == FC.arr[0](ix), v1 == FC.arr[1](ix), d == FC.dom(ix)))]

        def outer_idx(eng_, s, kk):
            i = z3.simplify(kk * int_term(s.env["nsig"]))
            cell_install(s, i)
            return SInt(i)

        def inner_idx(eng_, s, tt):
            i = z3.simplify(int_term(s.env["sat"]) * int_term(s.env["nsig"]) + tt)
            cell_install(s, i)
            return SInt(i)

        def inner_facts(eng_, s, tt):
            nsig = int_term(s.env["nsig"])
            sat = int_term(s.env["sat"])
            i = sat * nsig + tt
            satl, sigl = labels(s)
            j = i + 1
            # satellite-major: position j belongs to satellite ceil(j/nsig), signal (j-1) mod nsig
            # instance of lemma.cells.satellite_major_indexing (discharged separately) at (sat, tt)
            lem = z3.Implies(z3.And(sat >= 0, sat < nsat_spec, tt >= 0, tt < nsig),
                             z3.And((j - 1) / nsig + 1 == sat + 1, (j - 1) % nsig == tt, j <= nsat_spec * nsig, j >= 1))
            return [FC.unfold(i, test_bit(j), [satl((j - 1) / nsig + 1), sigl((j - 1) % nsig)]),
                    FC.rank(i) >= 0, int_term(s.env["nsat"]) == nsat_spec, nsig == nsig_spec, lem]

        keep_ncell = lambda e, s, kk: s.env["ncell"]
        self.loops = {
            0: LoopSpec(invariant=sat_inv, kinds={"nsat": sat_install}, facts=sat_facts, checkpoint=True),
            1: LoopSpec(invariant=sig_inv, kinds={"nsig": sig_install, "sigs": lambda e, s, kk: s.env["sigs"]}, facts=sig_facts, checkpoint=True),
            2: LoopSpec(invariant=lambda e, s, kk: cell_inv_at(s, kk * int_term(s.env["nsig"])),
                        kinds={"idx": outer_idx, "ncell": keep_ncell}),
            3: LoopSpec(invariant=lambda e, s, tt: cell_inv_at(s, int_term(s.env["sat"]) * int_term(s.env["nsig"]) + tt),
                        kinds={"idx": inner_idx, "ncell": keep_ncell}, facts=inner_facts),
        }
        canary = []
        for s, out in eng.exec_function(fi, st, {"self": selfv}, contract=self):
            if isinstance(out, RaiseExc):
                eng.oblige(f"{Q}.raises_nothing[{tag}]", s, False, kind="exc", note=f"raises {out.cls.__name__}: {out.msg}")
                continue
            canary.append(s)
            wr = {w[1] for w in s.writes if w[0] == selfv.oid}
            eng.oblige(f"{Q}.frame.writes_only_satmap_and_cellmap[{tag}]", s, z3.BoolVal(wr <= {"_satmap", "_cellmap"}), kind="frame",
                       note=str(sorted(map(str, wr))))
            o = s.obj(selfv)
            sat_h = hmap_of(s, o.fields["_satmap"])
            cell_h = hmap_of(s, o.fields["_cellmap"])
            (sv,), sd = maparrs(sat_h, 1)
            (c0, c1), cd = maparrs(cell_h, 2)
            obs = {"DF394": msm_int(mbits), "DF395": msm_int(gbits), "labelmsm": lm.t}
            eng.oblige(f"{Q}.post.satmap_is_fold_of_satellite_mask[{tag}]", s, z3.And(sv == FS.arr[0](64), sd == FS.dom(64)), observe=obs)
            sg = hseq_of(s, s.env["sigs"])
            eng.oblige(f"{Q}.post.signal_list_is_fold_of_signal_mask[{tag}]", s, z3.And(sg.n == FG.rank(32), sg.arr == FG.arr[0](32)), observe=obs)
            ix = int_term(s.env["idx"])
            eng.oblige(f"{Q}.post.cellmap_is_satellite_major_fold_of_cell_mask[{tag}]", s,
                       z3.And(c0 == FC.arr[0](ix), c1 == FC.arr[1](ix), cd == FC.dom(ix)), observe=obs)
            eng.oblige(f"{Q}.post.all_cell_mask_positions_processed[{tag}]", s, ix == ncells, observe=obs)
        return canary


def msm_int(bits):
    from pyvc.values import bits_to_int
    return bits_to_int(bits)
