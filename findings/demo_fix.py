import sys, io
sys.path.insert(0, sys.argv[1] + "/src")
from pyrtcm import RTCMReader, RTCMMessage
from pyrtcm.rtcmhelpers import crc2bytes, datadesc, parse_msm
from pyrtcm.socketwrapper import SocketWrapper
from pyrtcm import exceptions as E
def frame(p): m=b"\xd3"+len(p).to_bytes(2,"big")+p; return m+crc2bytes(m)
def t(name, f):
    try: print(name, "->", f())
    except BaseException as e: print(name, "-> RAISED", type(e).__name__, str(e)[:60])
p1005=bytes.fromhex("3ed00000000000000000000000000000000000")[:19]
t("F1", lambda: [r[1].identity for r in RTCMReader(io.BytesIO(frame(b"")+frame(p1005)), quitonerror=0)])
t("F2a", lambda: RTCMMessage(payload=b""))
t("F2b", lambda: RTCMMessage(payload=b"\xfe\xc0"))
def msm(mt, nbits=400):
    # DF002(12) DF003(12) epoch30 MM1 IODS3 res7 clk2 ext2 smooth1 int3 = 73 bits, then sat mask 64, sig mask 32, cell mask
    bits=format(mt,"012b")+"0"*12+"0"*30+"0"+"000"+"0"*7+"00"+"00"+"0"+"000"
    bits+="0"*63+"1"      # sat 64
    bits+="1"+"0"*31      # sig 1 (reserved)
    bits+="1"             # 1 cell
    bits+="0"*nbits
    bits+="0"*(-len(bits)%8)
    return int(bits,2).to_bytes(len(bits)//8,"big")
t("F3", lambda: RTCMMessage(payload=msm(1072)).identity)
t("F4", lambda: RTCMMessage(payload=msm(1071)).CELLSIG_01)
t("F7", lambda: parse_msm(RTCMMessage(payload=(1070<<4).to_bytes(2,"big")+b"\0"*10)))
t("F8", lambda: [datadesc(x) for x in ("IDF003","PRN_01","CELLSIG_02","DF422_1","DF001_7","IDF023_02_03")])
class S:
    def __init__(s, segs): s.segs=list(segs)
    def recv(s,n): return s.segs.pop(0) if s.segs else b""
def F6():
    w=SocketWrapper(S([b"5\r\nhello", b"\r\n3\r\nabc\r\n0\r\n\r\n"]), encoding=1)
    out=b""
    while True:
        d=w.read(1)
        if not d: break
        out+=d
    return out
t("F6", F6)
def F9():
    data=b"$GNabc\n"+frame(p1005)+b"$GNRMC,1*00\r\n"+frame(p1005)
    a=[r[0] for r in RTCMReader(io.BytesIO(data))]
    import socket
    class FS(socket.socket):
        def __init__(s): s.d=data
        def recv(s,n): r,s.d=s.d[:n],s.d[n:]; return r
        def __del__(s): pass
    b=[r[0] for r in RTCMReader(FS())]
    return len(a),len(b)
t("F9", F9)
