#!/usr/bin/env python3
"""Creates one scratch worktree of /repo per code area under $NEUT_DIR and writes the prompt each independent sub-agent is given
for a round of BEHAVIOUR-PRESERVING refactorings (nothing from /verif's machinery is shown to it).
usage: NEUT_DIR=/tmp/neut3 python3 tools/gen_neutral_prompts.py ; results are filed by hand as neutral/<area>-n<k>/patch.diff and
neutral/<area>-notes.md and run with tools/run_neutral.py."""
import os, subprocess

NEUT_DIR = os.environ.get("NEUT_DIR", "/tmp/neut3")
AREAS = {
    'reader3': ('src/pyrtcm/rtcmreader.py', 'RTCMReader.__init__, __iter__, __next__, read, _parse_ubx, _parse_nmea, _parse_rtcm3, _read_bytes, _read_line, _do_error, parse'),
    'socket3': ('src/pyrtcm/socketwrapper.py', 'SocketWrapper.__init__, _recv, read, readline, dechunk'),
    'msgwalk3': ('src/pyrtcm/rtcmmessage.py', 'RTCMMessage.__init__, _do_attributes, _set_attribute, _set_attribute_optional, _set_attribute_group, _set_attribute_single, _do_unknown, __setattr__, __repr__, __str__, serialize'),
    'msgmsm3': ('src/pyrtcm/rtcmmessage.py', 'RTCMMessage._getsatcellmaps, _get_dict, identity, payload, ismsm, and the MSM-related branches of _set_attribute_single'),
    'helpers3': ('src/pyrtcm/rtcmhelpers.py', 'att2idx, att2name, calc_crc24q, crc2bytes, len2bytes, datadesc, parse_msm, parse_4076_201'),
    'tables3': ('src/pyrtcm/rtcmtypes_core.py, rtcmtypes_get.py, rtcmtypes_get_igs.py, rtcmtypes_get_msm.py, rtcmtables.py', 'the definition tables (how they are written, not what they contain)'),
}
TMPL = open(os.path.join(os.path.dirname(os.path.abspath(__file__)), "neutral_prompt.txt")).read()

for a, (f, fn) in AREAS.items():
    wt = os.path.join(NEUT_DIR, a)
    if not os.path.isdir(wt):
        os.makedirs(NEUT_DIR, exist_ok=True)
        subprocess.check_call(["git", "-C", "/repo", "worktree", "add", "-q", wt, "HEAD"])
    open(os.path.join(NEUT_DIR, a + ".prompt.txt"), "w").write(TMPL.replace('__WT__', wt).replace('__FILES__', f).replace('__FUNCS__', fn))
print("prompts in", NEUT_DIR)
