#!/usr/bin/env python3
"""Runs the registered checks against each seeded change: git -C /repo apply, run, undo.
usage: run_seeds.py [seed-id ...] [--props C01,C02]   (default: the seed's own property)
Evidence and replay files of these runs go to a scratch directory, not to /verif."""
import json, os, subprocess, sys, glob, tempfile, shutil, time

V = os.path.dirname(os.path.dirname(os.path.abspath(__file__)))


def claimed():
    m = json.load(open(os.path.join(V, "MANIFEST.json")))
    return [c["property_id"] for c in m["checks"]]


def main():
    args = [a for a in sys.argv[1:] if not a.startswith("--")]
    props_opt = [a.split("=", 1)[1].split(",") for a in sys.argv[1:] if a.startswith("--props=")]
    allprops = "--all" in sys.argv
    have = set(os.path.splitext(os.path.basename(p))[0] for p in glob.glob(os.path.join(V, "props", "C??.py")))
    res_path = os.environ.get("RESULTS_PATH") or os.path.join(V, "seeded", "RESULTS.json")  # shards write their own file; merged afterwards
    results = json.load(open(res_path)) if os.path.exists(res_path) else {}
    st = subprocess.run("git -C /repo status --porcelain", shell=True, capture_output=True, text=True).stdout.strip()
    assert not st or "--scratch" in sys.argv, "/repo not clean: " + st
    for d in sorted(glob.glob(os.path.join(V, "seeded", "C??-mut*"))):
        sid = os.path.basename(d)
        if args and sid not in args and sid.split("-")[0] not in args:
            continue
        pid = sid.split("-")[0]
        props = props_opt[0] if props_opt else (sorted(have) if allprops else [pid])
        props = [p for p in props if p in have]
        out_dir = tempfile.mkdtemp(prefix="pyvc_seed_")
        scratch = "--scratch" in sys.argv
        env = dict(os.environ, PYVC_OUT=out_dir)
        if scratch:  # same check, against a scratch copy of the tree (used while something else needs /repo untouched)
            tree = tempfile.mkdtemp(prefix="pyvc_seedtree_")
            shutil.copytree("/repo/src", os.path.join(tree, "src"))
            subprocess.check_call(["git", "apply", os.path.join(d, "patch.diff")], cwd=tree)
            env["VERIF_REPO"] = tree
        else:
            subprocess.check_call(f"git -C /repo apply {d}/patch.diff", shell=True)
        entry = results.setdefault(sid, {})
        try:
            for p in props:
                t0 = time.time()
                r = subprocess.run(f"python3-vt -m pyvc check {p} --tier quick", shell=True, cwd=V, capture_output=True, text=True,
                                   env=env)
                lines = [l for l in r.stdout.splitlines() if l.startswith(("VIOLATION", "UNDECIDED", "CHECKER-ERROR", "KNOWN-FINDING"))]
                entry[p] = {"exit": r.returncode, "lines": lines[:6], "n_lines": len(lines), "wall_s": round(time.time() - t0, 1)}
                print(sid, p, "exit", r.returncode, (lines[:2] or [""])[0][:150])
        finally:
            if scratch:
                shutil.rmtree(tree, ignore_errors=True)
            else:
                subprocess.check_call("git -C /repo checkout -- .", shell=True)
            shutil.rmtree(out_dir, ignore_errors=True)
        json.dump(results, open(res_path, "w"), indent=1, sort_keys=True)


if __name__ == "__main__":
    main()
