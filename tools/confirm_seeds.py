#!/usr/bin/env python3
"""Confirms sub-agent seeded changes in a scratch worktree and files them under /verif/seeded/.
For each /tmp/seed/Cxx/seed_out/mut{A,B}.diff: patch applies, the 40 tests pass with it, the
demo fails with it and passes without it."""
import json, os, shutil, subprocess, sys, glob

V = os.path.dirname(os.path.dirname(os.path.abspath(__file__)))
WT = "/tmp/confirm_wt"
PY = "/venv/bin/python"


def sh(cmd, cwd=None, env=None, timeout=900):
    p = subprocess.run(cmd, shell=True, cwd=cwd, env=env, capture_output=True, text=True, timeout=timeout)
    return p.returncode, (p.stdout + p.stderr)


def main():
    subprocess.run(f"git -C /repo worktree remove --force {WT}", shell=True, capture_output=True)
    rc, out = sh(f"git -C /repo worktree add -q {WT} HEAD")
    assert rc == 0, out
    head = sh("git -C /repo rev-parse --short HEAD")[1].strip()
    props = {json.loads(l)["id"]: json.loads(l) for l in open(os.path.join(V, "properties.jsonl"))}
    results = []
    only = sys.argv[1:]
    for d in sorted(glob.glob(os.environ.get("SEED_DIR", "/tmp/seed") + "/C??/seed_out")):
        pid = d.split("/")[3]
        if only and pid not in only:
            continue
        notes = open(os.path.join(d, "notes.md")).read() if os.path.exists(os.path.join(d, "notes.md")) else ""
        for mut in ("mutA", "mutB"):
            diff, demo = os.path.join(d, f"{mut}.diff"), os.path.join(d, f"demo_{mut}.py")
            if not (os.path.exists(diff) and os.path.exists(demo)):
                continue
            env = dict(os.environ, PYTHONPATH=f"{WT}/src")
            sh("git checkout -q -- . && git clean -fdq", cwd=WT)
            rc0, out0 = sh(f"{PY} {demo}", cwd=WT, env=env)
            rca, outa = sh(f"git apply {diff}", cwd=WT)
            rct, outt = sh(f"{PY} -m pytest -q -p no:cacheprovider --no-cov -x 2>&1 | tail -3", cwd=WT)
            passed = "40 passed" in outt
            rc1, out1 = sh(f"{PY} {demo}", cwd=WT, env=env)
            sh("git checkout -q -- . && git clean -fdq", cwd=WT)
            ok = rc0 == 0 and rca == 0 and passed and rc1 != 0
            sid = f"{pid}-{mut}" + os.environ.get("SEED_SUFFIX", "")
            results.append((sid, ok, rc0, rca, passed, rc1))
            print(sid, "CONFIRMED" if ok else "REJECTED", dict(demo_clean=rc0, apply=rca, tests40=passed, demo_mut=rc1))
            if not ok:
                continue
            dst = os.path.join(V, "seeded", sid)
            os.makedirs(dst, exist_ok=True)
            shutil.copy(diff, os.path.join(dst, "patch.diff"))
            shutil.copy(demo, os.path.join(dst, "demo.py"))
            with open(os.path.join(dst, "notes.md"), "w") as f:
                f.write(notes)
            meta = {
                "id": sid, "property": pid, "property_title": props[pid]["title"], "base_commit": head,
                "source": "independent sub-agent given only the property text and a scratch worktree",
                "needs_to_manifest": "see notes.md (section for " + mut + ")",
                "confirmed": {
                    "demo_on_clean_tree": f"exit {rc0}: {out0.strip().splitlines()[-1] if out0.strip() else ''}"[:200],
                    "patch_applies": rca == 0,
                    "tests_with_change": outt.strip().splitlines()[-1] if outt.strip() else "",
                    "demo_with_change": f"exit {rc1}: {(out1.strip().splitlines() or [''])[-1]}"[:300],
                },
                "commands": [f"git apply patch.diff", f"{PY} -m pytest -q -p no:cacheprovider --no-cov", f"PYTHONPATH=<tree>/src {PY} demo.py"],
            }
            json.dump(meta, open(os.path.join(dst, "meta.json"), "w"), indent=1)
    sh(f"git -C /repo worktree remove --force {WT}")
    print(sum(1 for r in results if r[1]), "confirmed of", len(results))


if __name__ == "__main__":
    main()
