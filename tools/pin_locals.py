#!/usr/bin/env python3
"""Records, for every function of the code modules, its shape hash (locals anonymised) and the order of its local names,
from the tree in $VERIF_REPO (default /repo): spec/pinned_locals.json.  Run once when sidecar contracts are (re)written against
a tree; the checks only read the file."""
import json, os, sys
V = os.path.dirname(os.path.dirname(os.path.abspath(__file__)))
sys.path.insert(0, V)
from pyvc import extract  # noqa: E402
extract._pinned_locals = {}
import ast  # noqa: E402
out = {q: {"shape": fi.shape, "locals": fi.locals, "params": fi.params,
           "defaults": {k: ast.unparse(v) for k, v in fi.defaults.items()}} for q, fi in sorted(extract.functions().items())}
json.dump(out, open(os.path.join(V, "spec", "pinned_locals.json"), "w"), indent=1)
print(len(out), "functions pinned")
