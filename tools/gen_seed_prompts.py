#!/usr/bin/env python3
"""Creates one scratch worktree of /repo per property under $SEED_DIR and writes the prompt each independent sub-agent is
given (property text + its own worktree + one-line descriptions of the earlier rounds' changes, nothing from /verif's
machinery).  usage: SEED_DIR=/tmp/seed4 python3 tools/gen_seed_prompts.py
Afterwards: SEED_DIR=... SEED_SUFFIX=N python3 tools/confirm_seeds.py ; git -C /repo worktree remove --force <each> ."""
import json, os, re, subprocess

V = os.path.dirname(os.path.dirname(os.path.abspath(__file__)))
SEED_DIR = os.environ.get("SEED_DIR", "/tmp/seed5")

TMPL = '''You are helping test a verification tool by producing realistic *seeded defects* for a Python library, pyrtcm (a pure-Python RTCM3 GNSS protocol parser). You work ONLY inside your own scratch git worktree of the library at __WT__ (source under __WT__/src/pyrtcm, tests under __WT__/tests). Do not read or touch /repo, /verif or any other directory; do not commit anything.

The property you must break:

__TEXT__

Earlier rounds already produced the changes listed below for this property. Yours must be DIFFERENT in kind - not variations of them:
__PREV__

This round, prefer these kinds of change (they are the ones that slip past reviewers):
  * a "helpful" robustness or convenience addition that changes behaviour for some legal input: an extra validation that rejects a legal value, a normalisation (strip, lower, clamp, default substitution), a fallback that hides a failure, a retry, a silent conversion between types (bytes/bytearray/str/int/bool);
  * a change in ARITHMETIC on bit offsets, lengths or counts that is invisible for the sizes the test data contains (a mask one bit short, a width taken from the wrong field, integer vs float division, a shift by a computed amount that differs only for large values);
  * a change in the ORDER in which things are read, consumed or reported (bytes taken from the stream before a check instead of after, an attribute set before the one it depends on, a handler called before the state is updated);
  * a change that makes the result depend on something it must not depend on: the type (not value) of an argument, the identity of an object, dict/set iteration order, the locale or default encoding, an environment variable, time;
  * an interaction between TWO features (an option with a message type, an error mode with a protocol, an encoding flag with a buffer size) where each feature alone still works;
  * a change confined to `__str__`/`__repr__`/logging/error-message construction that nevertheless alters behaviour (an exception raised while building a message, evaluation of a property with side effects).
Avoid caches and memoisation, wholesale rewrites and new loops (already covered).

Task: produce TWO independent, different changes to the library source (files under __WT__/src/pyrtcm only; call them mutA and mutB) such that each one, applied alone:
  1. breaks the property above (for some input / schedule / history the property quantifies over),
  2. still imports fine and still passes the whole existing test suite, run as:
       cd __WT__ && /venv/bin/python -m pytest -q -p no:cacheprovider --no-cov
     (all 40 tests must pass), and
  3. is realistic and SUBTLE: it must need something specific to manifest. Do NOT produce changes that ordinary use would expose at once.

For each change also write a small standalone demonstration program (plain Python, run as  PYTHONPATH=__WT__/src /venv/bin/python demo_mutX.py ) that exits 0 and prints PASS on the unmodified tree and exits 1 printing FAIL (with the observed vs expected values) when the change is applied. The demonstration must check the property itself (independently computed expectation), not an implementation detail.

Deliverables - write these files into __WT__/seed_out/ (create it):
  mutA.diff, mutB.diff   - unified diffs produced with `git -C __WT__ diff -- src` with ONLY that change applied (each must apply cleanly with `git apply` to the unmodified tree; reset with `git -C __WT__ checkout -- src` between the two),
  demo_mutA.py, demo_mutB.py,
  notes.md - for each change: what it changes, why it breaks the property, exactly what is needed for it to manifest, and the commands you ran with their results.
Leave the worktree's src unmodified (checked out clean) when you finish. If you cannot find a second distinct change, deliver one. Reply with a 5-line summary.
'''


def main():
    os.makedirs(SEED_DIR, exist_ok=True)
    D = open(os.path.join(V, "DESIGN.md")).read()
    rows = {m.group(1): m.group(2).strip() for m in re.finditer(r"\| (C\d\d-mut[AB]\d?) \| ([^|]*) \|", D)}
    for line in open(os.path.join(V, "properties.jsonl")):
        p = json.loads(line)
        i = p["id"]
        wt = os.path.join(SEED_DIR, i)
        if not os.path.isdir(wt):
            subprocess.check_call(["git", "-C", "/repo", "worktree", "add", "-q", wt, "HEAD"])
        txt = f"Property {i}: {p['title']}\n\nStatement: {p['statement']}\n\nQuantified over: {p['quantifier']['text']}\n"
        pv = "\n".join(f"  - {v}" for k, v in sorted(rows.items()) if k.startswith(i))
        open(os.path.join(SEED_DIR, f"{i}.prompt.txt"), "w").write(TMPL.replace("__WT__", wt).replace("__TEXT__", txt).replace("__PREV__", pv))
    print("prompts in", SEED_DIR)


if __name__ == "__main__":
    main()
