#!/usr/bin/env python3
"""Creates one scratch worktree of /repo per property under $SEED_DIR and writes the prompt each independent sub-agent is
given (property text + its own worktree + one-line descriptions of the earlier rounds' changes, nothing from /verif's
machinery).  usage: SEED_DIR=/tmp/seed4 python3 tools/gen_seed_prompts.py
Afterwards: SEED_DIR=... SEED_SUFFIX=N python3 tools/confirm_seeds.py ; git -C /repo worktree remove --force <each> ."""
import json, os, re, subprocess

V = os.path.dirname(os.path.dirname(os.path.abspath(__file__)))
SEED_DIR = os.environ.get("SEED_DIR", "/tmp/seed7")

TMPL = '''You are helping test a verification tool by producing realistic *seeded defects* for a Python library, pyrtcm (a pure-Python RTCM3 GNSS protocol parser). You work ONLY inside your own scratch git worktree of the library at __WT__ (source under __WT__/src/pyrtcm, tests under __WT__/tests). Do not read or touch /repo, /verif or any other directory; do not commit anything.

The property you must break:

__TEXT__

Earlier rounds already produced the changes listed below for this property. Yours must be DIFFERENT in kind - not variations of them:
__PREV__

This round, prefer these kinds of change (they are the ones that slip past reviewers AND past ordinary testing):
  * TWO COOPERATING SITES that each look fine alone (a helper whose contract is loosened slightly and a caller that now relies on the old behaviour; a table entry and the code that interprets it; a constructor default and a later use);
  * a MULTI-STEP SEQUENCE: state carried between calls on the same object (a reader after an exception or after end of data, a socket wrapper after a timeout or a short receive, a message after a refused assignment, a second iteration of the same reader) where every single call still behaves;
  * a FAULT AT A PARTICULAR POINT: a timeout, short read, empty read or end of data that falls exactly between two specific bytes of a frame, header, size line or trailer;
  * BOUNDARY VALUES the test data never contains: largest or zero repeat counts, all-ones or all-zero masks, sub-type 255, message number 0 / 4095, 1023-byte payloads, the last entry of a lookup table, the most negative two's-complement value, sign-magnitude minus zero;
  * a change in the DEFINITION TABLES (rtcmtypes_*.py) rather than in code: a field replaced by another field of the same width but different type or resolution, a repeat-count key pointing at a different earlier field, a conditional group keyed on the wrong value, for a message type or branch the tests never decode;
  * PYTHON-SEMANTICS TRAPS: operator precedence, `is` vs `==`, truthiness of 0 / empty bytes / empty dict, `or`-defaults, bytes vs int indexing, negative slice indices, `%`/`//` on negatives, chained comparisons, late-binding, `except` clause order, generator exhaustion.
Avoid caches and memoisation, wholesale rewrites, new loops, and changes that merely rename things (already covered).

Task: produce TWO independent, different changes to the library source (files under __WT__/src/pyrtcm only; call them mutA and mutB) such that each one, applied alone:
  1. breaks the property above (for some input / schedule / history the property quantifies over),
  2. still imports fine and still passes the whole existing test suite, run as:
       cd __WT__ && /venv/bin/python -m pytest -q -p no:cacheprovider --no-cov
     (all 40 tests must pass), and
  3. is realistic and SUBTLE: it must need something specific to manifest. Do NOT produce changes that ordinary use would expose at once.

For each change also write a small standalone demonstration program (plain Python, run as  PYTHONPATH=__WT__/src /venv/bin/python demo_mutX.py ) that exits 0 and prints PASS on the unmodified tree and exits 1 printing FAIL (with the observed vs expected values) when the change is applied. The demonstration must check the property itself (independently computed expectation), not an implementation detail.

Deliverables - write these files into __WT__/seed_out/ (create it):
  mutA.diff, mutB.diff   - unified diffs produced with `git -C __WT__ diff -- src` with ONLY that change applied (each must apply cleanly with `git apply` to the unmodified tree; reset with `git -C __WT__ checkout -- src` between the two),
  demo_mutA.py, demo_mutB.py,
  notes.md - for each change: what it changes, why it breaks the property, exactly what is needed for it to manifest, and the commands you ran with their results.
Leave the worktree's src unmodified (checked out clean) when you finish. If you cannot find a second distinct change, deliver one. Reply with a 5-line summary.
'''


def main():
    os.makedirs(SEED_DIR, exist_ok=True)
    D = open(os.path.join(V, "DESIGN.md")).read()
    rows = {m.group(1): m.group(2).strip() for m in re.finditer(r"\| (C\d\d-mut[AB]\d?) \| ([^|]*) \|", D)}
    for line in open(os.path.join(V, "properties.jsonl")):
        p = json.loads(line)
        i = p["id"]
        wt = os.path.join(SEED_DIR, i)
        if not os.path.isdir(wt):
            subprocess.check_call(["git", "-C", "/repo", "worktree", "add", "-q", wt, "HEAD"])
        txt = f"Property {i}: {p['title']}\n\nStatement: {p['statement']}\n\nQuantified over: {p['quantifier']['text']}\n"
        pv = "\n".join(f"  - {v}" for k, v in sorted(rows.items()) if k.startswith(i))
        open(os.path.join(SEED_DIR, f"{i}.prompt.txt"), "w").write(TMPL.replace("__WT__", wt).replace("__TEXT__", txt).replace("__PREV__", pv))
    print("prompts in", SEED_DIR)


if __name__ == "__main__":
    main()
