#!/usr/bin/env python3
"""Regenerates /verif/MANIFEST.json from the table below (keeps it schema-valid)."""
import json
import os

V = os.path.dirname(os.path.dirname(os.path.abspath(__file__)))
props = [json.loads(l) for l in open(os.path.join(V, "properties.jsonl"))]

BASE_TRUST = ("Trusted: the pyvc VC generator itself (ast -> z3; cross-checked by seeded mutants and CPython replays), "
              "z3/cvc5, CPython semantics of the modelled subset (DESIGN 1.5). Every check also discharges the shared-state scan "
              "(no module-/class-level mutable state, no mutable defaults, no store outside locals/self) on which the per-function, "
              "fresh-object argument rests. ")

SESSION3_NOTES = {
    "C02": " Also discharged here: SocketWrapper units + refinement lemmas (socket-backed streams), tables.WF and tables.needs_no_more_bits_than_standard (a valid frame is one laid out as the pinned standard says).",
    "C03": " Also discharged here: tables.lengths / siblings / msm / field_entries against the pinned standard data (the definition is the standard's layout).",
    "C04": " Includes the SocketWrapper units (plain + chunked) and refinement lemmas: no foreign exception out of the library's own stream either.",
    "C05": " Includes the reader's constructor (the chosen error mode is the one stored) and the SocketWrapper units + refinement lemmas.",
    "C07": " Includes the decode-path units ('every valid frame parses': the walk raises only where the reference interpreter fails, the MSM maps raise nothing).",
    "C08": " The constructor's caller view requires that only payload and label option are passed (the result cannot depend on the checksum bytes).",
    "C13": " Includes the SocketWrapper units (safety obligations) + refinement lemmas: what the wrapper hands out depends on the peer's bytes only.",
    "C15": " Also discharged here: tables.identity_set (which numbers have a payload definition is the pinned standard's set).",
    "C17": " Includes the SocketWrapper units + refinement lemmas (same raw frames over socket-backed streams).",
    "C18": " Also discharged here: tables.msm (the epoch field of each constellation, PRN and signal maps, pinned).",
}

CLAIMS = {
    "C08": dict(
        category="proof",
        text=("calc_crc24q is proved, for byte strings of every length (loop invariant over a prefix-indexed spec function), "
              "to return the CRC-24Q remainder defined by polynomial long division; crc2bytes is proved to be its big-endian "
              "3-byte form; single-bit/burst<=24/odd-weight/two-bit detection lemmas are discharged on the spec step "
              "(propositional, after bit-listing) with base/step obligations for the sequence inductions. Unit tests sample "
              "a handful of frames; this covers all inputs."),
        design_ref="DESIGN.md 5/C08",
        note=BASE_TRUST + "Composition of the detection lemmas into the four damage classes is argued (listed in evidence).",
        technique="VC generation from the real AST + loop invariant; bit-list (propositional) CRC lemmas in z3",
    ),
}
CLAIMS.update({
    "C01": dict(
        category="proof",
        text=("RTCMReader.read() and every function under it are verified by contract against a ghost byte stream with arbitrary "
              "short/empty reads: whatever read() returns is a contiguous slice src[s:pos'] starting at or after the position where "
              "the call began, with preamble 0xD3, six zero bits, length field = enclosed payload size and (validation on) zero "
              "CRC-24Q by the spec definition; the message's payload is that slice minus 3+3 bytes. The loop is cut at an invariant, "
              "so stream length, noise and fault placement are unbounded."),
        design_ref="DESIGN.md 5/C01",
        note=BASE_TRUST + "Assumed for a caller-supplied stream: the read/readline contract of DESIGN 3.1; for the library's own SocketWrapper (plain and chunked) it is discharged in this check: the wrapper's function units (safety obligations) plus the refinement lemmas over their contracts (lemma.refines.SocketWrapper.*). "
             "Non-overlap/in-order is the corollary of the proved monotone ghost position.",
        technique="VC generation from the real AST, modular contracts + loop invariant over ghost stream position; z3",
    ),
    "C04": dict(
        category="proof",
        text=("Exceptional postconditions of every function from the public entry points down: the constructor raises only "
              "RTCMMessageError/RTCMTypeError for ANY bytes (symbolic payload, lengths 0..), parse adds RTCMParseError, read()/__next__ "
              "raise nothing in ignore/log modes and only the four library classes in raise mode; the table walk is verified per "
              "concrete node of the real tables; termination by loop-variant obligations: read() (each further iteration consumed >= 1 byte), "
              "SocketWrapper.read/readline (net_end - rpos / net_end - dpos under a finite peer stream; _recv reports success only after "
              "taking >= 1 byte off it); a third instance of read() covers duck-typed streams that return bytearray objects."),
        design_ref="DESIGN.md 5/C04",
        note=BASE_TRUST + "Leaf decoder _set_attribute_single is used through its contract here (its body is the subject of C03/C06). "
             "User errorhandler assumed not to raise.",
        technique="VC generation from the real AST; exceptional postconditions composed modularly; per-table-node instances; z3",
    ),
    "C07": dict(
        category="proof",
        text=("serialize() is proved, for every payload length, to return D3 ++ be16(len) ++ payload ++ be24(CRC-24Q spec of those "
              "bytes) with the top six length bits zero up to 1023; parse() is proved to keep message[3:-3] verbatim and to reject "
              "only on a non-zero spec CRC; the two round trips then follow from the CRC lemmas append_own_crc_gives_zero and "
              "trailer_unique (both discharged); __repr__ is proved to print the stored payload literal."),
        design_ref="DESIGN.md 5/C07",
        note=BASE_TRUST + "eval(repr(bytes)) == bytes is a language property; the round-trip composition is argued from the discharged contracts.",
        technique="VC generation from the real AST; byte-sequence views + bit-list CRC spec; z3",
    ),
    "C14": dict(
        category="proof",
        text=("__setattr__ is proved to raise RTCMMessageError and write nothing whenever the immutable flag is set (public, indexed, "
              "private and new names), __init__ is proved to set the flag on every normal path including unknown types, and the "
              "members usable afterwards are proved (symbolic execution + syntactic frame scan) to write nothing."),
        design_ref="DESIGN.md 5/C14",
        note=BASE_TRUST + "object.__setattr__ is a plain store except for setter-less class properties (AttributeError); bytes objects are "
             "immutable, and the reading layer (SocketWrapper.read, _read_bytes, _parse_rtcm3, parse) is proved to hand the constructor bytes, "
             "never a bytearray.",
        technique="VC generation from the real AST; frame conditions checked on every write site; z3",
    ),
    "C15": dict(
        category="proof",
        text=("identity is proved for ALL payloads (symbolic header bytes, arbitrary tail) equal to the decimal message number of the "
              "first 12 bits (+ three-digit sub-type for 4076) against an integer-arithmetic spec; _get_dict dispatch, the MSM "
              "predicate and the unknown-type stub are decided for every one of the 4095+256 possible identity headers by case split "
              "through the engine; stubs keep the payload (serialize contract)."),
        design_ref="DESIGN.md 5/C15",
        note=BASE_TRUST + "The 4351-way case split evaluates the real AST with concrete header bytes and a symbolic tail.",
        technique="VC generation from the real AST; symbolic bytes for identity, exhaustive header case split for dispatch; z3",
    ),
})
CLAIMS.update({
    "C02": dict(
        category="proof",
        text=("read() is verified under the fault-free stream contract with a ghost partition of the input into items (noise byte, UBX "
              "frame, NMEA sentence, valid RTCM frame, damaged RTCM frame): loop invariant 'pos is an item boundary and no returnable "
              "item has been skipped'; each call returns exactly the first returnable item and stops at its end; (None, None) only when "
              "all items are consumed. Frame length is symbolic in 0..1023 (filler and maximum frames included); cover obligations show "
              "every item kind is reachable."),
        design_ref="DESIGN.md 5/C02",
        note=BASE_TRUST + "Assumed: fault-free stream contract; the ghost item axioms are the property's own well-formedness predicate; "
             "ParsesOK(payload) is uninterpreted in read()'s own obligations; the decode-path obligations (as in C03) included in this check show it "
             "fails only where the reference layout interpreter fails. The induction over successive read() calls is argued.",
        technique="VC generation from the real AST; loop invariant over ghost item partition, engine-side axiom instantiation; z3",
    ),
    "C05": dict(
        category="proof",
        text=("_parse_rtcm3 is proved to have consumed the whole frame before a validation error can surface, _do_error to raise only in "
              "raise mode and call the handler exactly once in log mode, and read()'s invariant to count handler calls = bad frames "
              "skipped (log) / none (ignore); in raise mode the exception leaves the stream at the next item boundary so the same reader "
              "continues. Damage classes give CRC != 0 by the C08 lemmas, re-discharged here."),
        design_ref="DESIGN.md 5/C05",
        note=BASE_TRUST + "As C02; user errorhandler assumed not to raise.",
        technique="VC generation from the real AST; exceptional postconditions + ghost handler-call counter in the loop invariant; z3",
    ),
    "C17": dict(
        category="proof",
        text=("parse(): the validate bit gates only the CRC test; _parse_rtcm3: the parsed flag gates only the call to parse after the "
              "frame has been read, and raw/pos' mention the stream only; read() returns exactly the items selected by the "
              "option-dependent predicate Ret and always stops at the item's end; RTCMReader.__init__ stores options without touching "
              "the stream."),
        design_ref="DESIGN.md 5/C17",
        note=BASE_TRUST + "As C02.",
        technique="VC generation from the real AST; option values symbolic in every obligation; z3",
    ),
})
CLAIMS.update({
    "C03": dict(
        category="proof",
        text=("Three layers over the REAL tables loaded on each run. L1: _set_attribute_single is verified once per data field and nesting "
              "depth (523 instances; symbolic offset, indices and payload bits) against the typed decode (unsigned / two's complement / "
              "sign-magnitude / character, times resolution) of exactly its own bits, with the attribute named by two-digit indices and "
              "nothing else written. L2: the recursive walk is verified per concrete table node against the reference layout "
              "interpreter R (loop invariants over Iter: unbounded repeat counts, nested and conditional groups, '+n' counters, IDF035+1). "
              "L3: _do_attributes per identity. MSM maps and data-dependent sizes by their own contracts (C09)."),
        design_ref="DESIGN.md 5/C03",
        note=BASE_TRUST + "Float multiply by the resolution is uninterpreted (rounding not proved). The leaf transformer is uninterpreted in L2/L3; "
             "composition of the layers is by modularity. NUL code units of STR fields unconstrained.",
        technique="VC generation from the real AST per table entry; bit-list payload model; UF reference interpreter with loop invariants; z3",
    ),
    "C06": dict(
        category="proof",
        text=("Main clause proved: for every data field, a normal return of the leaf implies offset+width <= 8*len(payload) and the value is "
              "built only from payload bits below that bound; a field that does not fit makes the leaf, the walk and the constructor fail "
              "with the library's error; __init__ fixes the bit length and the payload integer. The 'in particular' truncation clause: "
              "prefix determinism of the reference layout interpreter is proved per concrete table node (structural + Iter induction, "
              "~3 800 lemma obligations) from leaf axioms discharged on the leaf specification, and the corollary follows linearly; a "
              "BOUNDED sweep (every whole-byte truncation of generated complete messages of all 152 types) is kept as a labelled cross-check."),
        design_ref="DESIGN.md 5/C06",
        note=BASE_TRUST + "Leaf axioms for the derived / attribute-dependent fields (PRN, CELLPRN, CELLSIG, DF396, IDF038) are argued; "
             "the prefix relation is uninterpreted.",
        technique="VC generation from the real AST (exceptional postconditions of the leaf per data field) + labelled bounded truncation sweep",
    ),
    "C09": dict(
        category="proof",
        text=("_getsatcellmaps is verified for each constellation with symbolic 64-bit satellite mask, 32-bit signal mask, cell mask of "
              "symbolic width and both label options: the maps equal prefix-indexed fold specifications (no bound on NSat*NSig; non-linear "
              "satellite-major indexing discharged by z3), and the folds are proved by induction to put the k-th set bit's label at key k. "
              "Counts are popcounts (leaf contracts); PRN/signal tables equal the pinned RTCM 10403.3 tables; reserved IDs give 'N/A'."),
        design_ref="DESIGN.md 5/C09",
        note=BASE_TRUST + "Pinned tables are the author's transcription of the standard (spec/pinned.py).",
        technique="VC generation from the real AST; checkpointed unrolling + loop invariants over fold spec functions; induction lemmas; z3",
    ),
    "C10": dict(
        category="proof",
        text=("Closed obligations over the real tables, discharged by evaluation with the failing entry as counterexample: well-formedness "
              "of all 152 definitions (fields defined, counts/conditions decoded earlier), structural equality of every layout's header / "
              "per-block / per-inner-block bits with the pinned standard formula (hence for all repeat counts), sibling field-sequence "
              "relations (SSR combined = orbit ++ clock for GPS, GLONASS and six IGS constellations; extended contains basic; one MSM layout "
              "per level), MSM tables; plus dispatch for every identity and the walk / size-determining leaf contracts."),
        design_ref="DESIGN.md 5/C10",
        note=BASE_TRUST + "Pinned formulas: author's transcription; 31 identities marked tree@framework-build-time (no offline source).",
        technique="ground evaluation of closed table obligations against pinned standard data + VC generation for dispatch and walk",
    ),
    "C16": dict(
        category="proof",
        text=("Read-set obligation (the label option is read at exactly one site, to choose the tuple slot of the signal label) + the "
              "contract of _getsatcellmaps, in which the option parameterises the signal-label fold only + pass-through obligations of "
              "__init__, parse and _parse_rtcm3 + ground lemma that non-MSM definitions contain no derived-label fields."),
        design_ref="DESIGN.md 5/C16",
        note=BASE_TRUST + "The two-run relational conclusion is the corollary of these single-run contracts.",
        technique="syntactic read-set scan + VC generation from the real AST with the option symbolic; z3",
    ),
    "C19": dict(
        category="proof",
        text=("att2idx, att2name and datadesc are symbolically executed on base + '_%02d' per nesting level with symbolic indices >= 1 "
              "(two- and three-digit alike) for every (field, depth) that occurs in the real tables - IGS IDF fields, derived PRN/cell "
              "labels and sub-numbered fields included."),
        design_ref="DESIGN.md 5/C19",
        note=BASE_TRUST + "String operations are computed on segment lists under the ground-checked facts about '%02d'.",
        technique="VC generation from the real AST over structured symbolic strings, per table entry",
    ),
})
CLAIMS.update({
    "C13": dict(
        category="proof",
        text=("Frame (assigns) obligations of every function of the decode path, discharged on the symbolic executions already used for "
              "C03/C09 (the leaf writes only its own attribute and the MSM counters, the walk only its index list and the message state, "
              "_getsatcellmaps only the two maps, parse nothing), plus a syntactic frame scan of the code modules (no global/nonlocal, no "
              "mutable defaults, no module- or class-level state, no store or mutating call rooted outside locals/self) and of the table "
              "modules (literal dict/tuple data, no hash-ordered sets). Any store into a table or module global is outside the modelled "
              "subset and is reported. The thread clause is argued from these frame conditions; a labelled bounded history sweep backs it."),
        design_ref="DESIGN.md 5/C13",
        note=BASE_TRUST + "Thread interleavings are not machine-checked (argued corollary, evidence.argued_corollaries).",
        technique="frame conditions checked on every write site by the VC generator + syntactic frame scan; labelled bounded history sweep",
    ),
})
CLAIMS.update({
    "C11": dict(
        category="proof",
        text=("SocketWrapper is verified against a trusted recv() contract whose nondeterminism covers every segmentation, buffer size and "
              "placement of timeouts / OS errors: class invariant _buffer == net[delivered : received] (established by __init__, preserved "
              "by _recv in both outcomes - a failed receive changes nothing - and by read/readline); read returns exactly the next num "
              "bytes or b'' after a failed receive; readline the bytes through the first LF. That it refines the stream contract the "
              "reader is verified against is mechanised as lemmas over the contracts (lemma.refines.SocketWrapper.read/readline: every "
              "outcome the wrapper contracts allow is one the stream contract allows, and the invariant holds again), and "
              "RTCMReader.__init__ is proved to wrap sockets."),
        design_ref="DESIGN.md 5/C11",
        note=BASE_TRUST + "Assumed: socket.recv contract; liveness of the peer for termination; plain mode (chunked: C12).",
        technique="VC generation from the real AST; class invariant + loop invariants over ghost network stream; z3",
    ),
    "C12": dict(
        category="proof",
        text=("dechunk is verified over a ghost chunk partition of the encoded stream for all 8 compression-bit combinations: partial is the "
              "undecoded tail from a chunk boundary, no complete chunk is left in it, chunks are exactly the decoded bodies before it (loop "
              "invariant on the BytesIO cursor); _recv in chunked mode preserves the class invariant (_buffer = decoded bytes up to the "
              "boundary, _partial = received bytes after it). Hex-size parsing and zlib are uninterpreted; a labelled bounded sweep of all "
              "1-/2-cut segmentations of small bodies (upper/lower-case sizes, +/- zero chunk, each compression) covers them."),
        design_ref="DESIGN.md 5/C12",
        note=BASE_TRUST + "int(line,16) and zlib.decompress are uninterpreted functions with the stated assumptions; receives after the zero chunk not modelled.",
        technique="VC generation from the real AST over ghost chunk partition (byte views, no string solver) + labelled bounded segmentation sweep",
    ),
})
CLAIMS.update({
    "C18": dict(
        category="proof",
        text=("parse_msm is verified for each of the 49 MSM definitions of the real tables - loops over symbolic NSat / NCell cut at "
              "invariants (the list built so far is the prefix-indexed spec sequence of the indexed attributes), meta fields incl. the "
              "constellation's epoch field - and for non-MSM, unknown and merely-reserved identities (returns None, raises nothing); "
              "parse_4076_201 for 1..4 layers (complete: 2-bit field) with the probing while-loop cut at an invariant (any number of "
              "coefficients, incl. > 99, same two-digit-minimum name format as the parser); ground lemma: the helper's literal lists cover "
              "every satellite / cell leaf of every MSM definition."),
        design_ref="DESIGN.md 5/C18",
        note=BASE_TRUST + "Precondition: the class invariant on the message's attribute set exported by the constructor (C03-L2/L3).",
        technique="VC generation from the real AST per MSM definition; loop invariants over prefix-indexed spec sequences; z3",
    ),
})
REASONS = {}

checks = []
na = []
for p in props:
    pid = p["id"]
    if pid in CLAIMS:
        c = CLAIMS[pid]
        checks.append({
            "property_id": pid,
            "quick_cmd": f"python3-vt -m pyvc check {pid} --tier quick",
            "thorough_cmd": f"python3-vt -m pyvc check {pid} --tier thorough",
            "evidence_file": f"evidence/{pid}.json",
            "replay_cmd_template": "python3-vt -m pyvc replay {path}",
            "engine": "pyvc",
            "level_claimed": {"category": c["category"], "text": c["text"], "design_ref": c["design_ref"]},
            "level_note": c["note"] + SESSION3_NOTES.get(pid, ""),
            "technique": c["technique"],
        })
    else:
        na.append({"property_id": pid, "reason": REASONS.get(pid, "check not built yet (work in progress; DESIGN.md section 9 gives the order of work)")})

m = {
    "version": 1,
    "setup_cmd": "python3-vt -m pyvc setup",
    "hooks": {
        "guard": "PYRTCM_VERIF",
        "enable": "not needed: contracts are sidecar files under /verif/contracts; /repo is never edited for verification",
        "baseline_off_cmd": "cd /repo && /venv/bin/python -m pytest -ra -q -p no:cacheprovider --timeout=900 --continue-on-collection-errors",
        "source_commits": [],
        "add_only": True,
    },
    "engines": [{
        "name": "pyvc", "path": "pyvc", "serves_properties": sorted(CLAIMS),
        "kind_free_text": "verification-condition generator over the real Python AST (re-extracted from /repo on every run) with sidecar contracts in /verif/contracts and spec functions in /verif/spec; z3 primary, cvc5 on unknown",
    }],
    "checks": checks,
    "notes": "see DESIGN.md; exit codes 0 held / 1 violation / 2 undecided / 3 checker error",
    "not_applicable": na,
}
json.dump(m, open(os.path.join(V, "MANIFEST.json"), "w"), indent=1)
print("checks:", [c["property_id"] for c in checks])
