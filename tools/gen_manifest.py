#!/usr/bin/env python3
"""Regenerates /verif/MANIFEST.json from the table below (keeps it schema-valid)."""
import json
import os

V = os.path.dirname(os.path.dirname(os.path.abspath(__file__)))
props = [json.loads(l) for l in open(os.path.join(V, "properties.jsonl"))]

BASE_TRUST = ("Trusted: the pyvc VC generator itself (ast -> z3; cross-checked by seeded mutants and CPython replays), "
              "z3/cvc5, CPython semantics of the modelled subset (DESIGN 1.5). ")

CLAIMS = {
    "C08": dict(
        category="proof",
        text=("calc_crc24q is proved, for byte strings of every length (loop invariant over a prefix-indexed spec function), "
              "to return the CRC-24Q remainder defined by polynomial long division; crc2bytes is proved to be its big-endian "
              "3-byte form; single-bit/burst<=24/odd-weight/two-bit detection lemmas are discharged on the spec step "
              "(propositional, after bit-listing) with base/step obligations for the sequence inductions. Unit tests sample "
              "a handful of frames; this covers all inputs."),
        design_ref="DESIGN.md 5/C08",
        note=BASE_TRUST + "Composition of the detection lemmas into the four damage classes is argued (listed in evidence).",
        technique="VC generation from the real AST + loop invariant; bit-list (propositional) CRC lemmas in z3",
    ),
}
REASONS = {}

checks = []
na = []
for p in props:
    pid = p["id"]
    if pid in CLAIMS:
        c = CLAIMS[pid]
        checks.append({
            "property_id": pid,
            "quick_cmd": f"python3-vt -m pyvc check {pid} --tier quick",
            "thorough_cmd": f"python3-vt -m pyvc check {pid} --tier thorough",
            "evidence_file": f"evidence/{pid}.json",
            "replay_cmd_template": "python3-vt -m pyvc replay {path}",
            "engine": "pyvc",
            "level_claimed": {"category": c["category"], "text": c["text"], "design_ref": c["design_ref"]},
            "level_note": c["note"],
            "technique": c["technique"],
        })
    else:
        na.append({"property_id": pid, "reason": REASONS.get(pid, "check not built yet (work in progress; DESIGN.md section 9 gives the order of work)")})

m = {
    "version": 1,
    "setup_cmd": "python3-vt -m pyvc setup",
    "hooks": {
        "guard": "PYRTCM_VERIF",
        "enable": "not needed: contracts are sidecar files under /verif/contracts; /repo is never edited for verification",
        "baseline_off_cmd": "cd /repo && /venv/bin/python -m pytest -ra -q -p no:cacheprovider --timeout=900 --continue-on-collection-errors",
        "source_commits": [],
        "add_only": True,
    },
    "engines": [{
        "name": "pyvc", "path": "pyvc", "serves_properties": sorted(CLAIMS),
        "kind_free_text": "verification-condition generator over the real Python AST (re-extracted from /repo on every run) with sidecar contracts in /verif/contracts and spec functions in /verif/spec; z3 primary, cvc5 on unknown",
    }],
    "checks": checks,
    "notes": "see DESIGN.md; exit codes 0 held / 1 violation / 2 undecided / 3 checker error",
    "not_applicable": na,
}
json.dump(m, open(os.path.join(V, "MANIFEST.json"), "w"), indent=1)
print("checks:", [c["property_id"] for c in checks])
