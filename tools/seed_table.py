#!/usr/bin/env python3
"""Prints the markdown table of a round of seeded changes from seeded/<id>/meta.json ('what') and seeded/RESULTS.json.
usage: tools/seed_table.py 3   (suffix of the round: '', 2, 3 ...)"""
import json, os, re, sys, glob

V = os.path.dirname(os.path.dirname(os.path.abspath(__file__)))
suffix = sys.argv[1] if len(sys.argv) > 1 else ""
res = json.load(open(os.path.join(V, "seeded", "RESULTS.json")))
print(f"| seed (round {suffix or 1}) | what it changes | caught by (first failing obligation) | concrete failing input replayed |")
print("|---|---|---|---|")
for d in sorted(glob.glob(os.path.join(V, "seeded", "C??-mut[AB]" + suffix))):
    sid = os.path.basename(d)
    what = json.load(open(os.path.join(d, "meta.json"))).get("what", "")
    pid = sid.split("-")[0]
    r = res.get(sid, {}).get(pid)
    if not r:
        print(f"| {sid} | {what} | (not run) | |")
        continue
    line = (r["lines"] or [""])[0]
    m = re.search(r"replay=replays/C\d\d/(.*?)(-[0-9a-f]{10})?\.json", line)
    ob = m.group(1) if m else line[:80]
    ob = ob.replace("pyrtcm.rtcmmessage.RTCMMessage.", "").replace("pyrtcm.rtcmreader.RTCMReader.", "").replace("pyrtcm.socketwrapper.SocketWrapper.", "").replace("pyrtcm.rtcmhelpers.", "")
    if ob.endswith("-bounded-search"):
        ob = ob[:-len("-bounded-search")] + " (function left the modelled subset: bounded search on its contract)"
    nf = any("no-failing-input-found" in x for x in r["lines"][:1])
    print(f"| {sid} | {what} | {pid}: `{ob}` (exit {r['exit']}) | {'no' if nf else 'yes' if r['exit'] == 1 else ''} |")
