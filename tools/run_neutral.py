#!/usr/bin/env python3
"""Runs the checks against behaviour-preserving refactorings (neutral/<id>/patch.diff): every check whose units touch a changed
function must still exit 0.  Scratch copies only; /repo is not touched.  usage: python3-vt tools/run_neutral.py [ids...]
Results: neutral/RESULTS.json"""
import glob, hashlib, json, os, shutil, subprocess, sys, tempfile, time

V = os.path.dirname(os.path.dirname(os.path.abspath(__file__)))
sys.path.insert(0, V)


def func_shas(tree):
    code = ("import sys, json; sys.path.insert(0, %r)\nfrom pyvc import extract\n"
            "print(json.dumps({q: f.sha for q, f in extract.functions().items()}))" % V)
    out = subprocess.run(["python3-vt", "-c", code], env=dict(os.environ, VERIF_REPO=tree), capture_output=True, text=True, check=True).stdout
    return json.loads(out.strip().splitlines()[-1])


def prop_functions():
    code = ("import sys, json, glob, os, importlib; sys.path.insert(0, %r)\nimport contracts\nres = {}\n"
            "for p in sorted(glob.glob(os.path.join(%r, 'props', 'C??.py'))):\n"
            "    pid = os.path.basename(p)[:-3]\n    m = importlib.import_module('props.' + pid)\n"
            "    res[pid] = sorted({u.qualname for u in m.units('quick') if getattr(u, 'qualname', None)})\n"
            "print(json.dumps(res))" % (V, V))
    out = subprocess.run(["python3-vt", "-c", code], capture_output=True, text=True, check=True, cwd=V).stdout
    return json.loads(out.strip().splitlines()[-1])


def main():
    only = sys.argv[1:]
    base = func_shas("/repo")
    pf = prop_functions()
    res_path = os.environ.get("RESULTS_PATH") or os.path.join(V, "neutral", "RESULTS.json")
    results = json.load(open(res_path)) if os.path.exists(res_path) else {}
    for d in sorted(glob.glob(os.path.join(V, "neutral", "*-n?"))):
        nid = os.path.basename(d)
        if only and nid not in only:
            continue
        tree = tempfile.mkdtemp(prefix="pyvc_neutral_")
        out_dir = tempfile.mkdtemp(prefix="pyvc_neutralout_")
        try:
            shutil.copytree("/repo/src", os.path.join(tree, "src"))
            subprocess.check_call(["git", "apply", os.path.join(d, "patch.diff")], cwd=tree)
            now = func_shas(tree)
            changed = sorted(q for q in now if now[q] != base.get(q))
            props = sorted(p for p, fs in pf.items() if set(fs) & set(changed))
            # NEUTRAL_SKIP=C02,C03,...: leave out the named (slow) checks where every changed function is also a unit of another
            # check that is run - a function unit's verdict does not depend on the property it is run under
            skip = [x for x in os.environ.get("NEUTRAL_SKIP", "").split(",") if x]
            keep = [p for p in props if p not in skip]
            if all(any(q in pf[p] for p in keep) for q in changed if any(q in pf[p] for p in props)):
                props = keep
            entry = results.setdefault(nid, {})
            entry["changed_functions"] = changed
            for p in props:
                t0 = time.time()
                r = subprocess.run(f"python3-vt -m pyvc check {p} --tier quick", shell=True, cwd=V, capture_output=True, text=True,
                                   env=dict(os.environ, VERIF_REPO=tree, PYVC_OUT=out_dir))
                lines = [l for l in r.stdout.splitlines() if l.startswith(("VIOLATION", "UNDECIDED", "CHECKER-ERROR", "KNOWN-FINDING"))]
                entry[p] = {"exit": r.returncode, "lines": [l[:300] for l in lines[:4]], "wall_s": round(time.time() - t0, 1)}
                print(nid, p, "exit", r.returncode, (lines[:1] or [""])[0][:200], flush=True)
            json.dump(results, open(res_path, "w"), indent=1, sort_keys=True)
        finally:
            shutil.rmtree(tree, ignore_errors=True)
            shutil.rmtree(out_dir, ignore_errors=True)


if __name__ == "__main__":
    main()
