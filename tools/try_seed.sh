#!/bin/sh
# usage: tools/try_seed.sh <seed-id> [property] [tier]   - run one check against a scratch copy of /repo/src with the seeded change
# applied; prints the verdict lines; keeps nothing.
sid=$1; prop=${2:-$(echo $sid | cut -d- -f1)}; tier=${3:-quick}
t=$(mktemp -d /tmp/tryseed_XXXX); o=$(mktemp -d /tmp/tryout_XXXX)
cp -r /repo/src $t/src && (cd $t && git apply /verif/seeded/$sid/patch.diff) || exit 9
cd ${VERIF_HOME:-/verif} && VERIF_REPO=$t PYVC_OUT=$o python3-vt -m pyvc check $prop --tier $tier 2>&1 | grep -v "^OK" | grep "VIOLATION\|UNDECIDED\|CHECKER\|KNOWN\|^\[C" | cut -c1-260 | head -${LINES_MAX:-12}
if [ -n "$KEEP" ]; then echo "out=$o tree=$t"; else rm -rf $t $o; fi
